#!/bin/bash
# runs every check's quick (or given) tier once; prints one summary line per check and the exit codes
cd "$(dirname "$0")"
TIER=${1:-quick}
rc_all=0
for i in $(seq -w 1 20); do
  id="C$i"
  start=$(date +%s)
  out=$(./check $id --tier $TIER 2>&1); rc=$?
  end=$(date +%s)
  echo "$out" | grep -E "^(VIOLATION|KNOWN-FINDING|HARNESS-ERROR:)" | cut -c1-200
  echo "$id rc=$rc $((end-start))s :: $(echo "$out" | grep "^$id tier=" | cut -c1-230)"
  [ $rc -ne 0 ] && rc_all=1
done
exit $rc_all
