#!/bin/bash
# validates MANIFEST.json and every evidence file against the schemas (uses the tooling venv's jsonschema)
cd "$(dirname "$0")"
python3-vt - <<'PY'
import json, glob, jsonschema, sys
ok=True
m=json.load(open('MANIFEST.json')); jsonschema.validate(m, json.load(open('/root/.vp/MANIFEST.schema.json'))); print('MANIFEST ok,', len(m['checks']), 'checks')
s=json.load(open('/root/.vp/EVIDENCE.schema.json'))
for f in sorted(glob.glob('evidence/*.json')):
    try: jsonschema.validate(json.load(open(f)), s); print(f,'ok')
    except Exception as e: ok=False; print(f,'INVALID', str(e)[:300])
sys.exit(0 if ok else 1)
PY
