"""Selection environments (FLP, MCP, DPP, MDPP): specs, instance alphabets and their (tiny) ground truth."""
from __future__ import annotations

import itertools
import math
import os

import numpy as np
import torch
from tensordict import TensorDict

from .core import VERIF, quiet

quiet()

from rl4co.envs import DPPEnv, FLPEnv, MCPEnv, MDPPEnv  # noqa: E402

SYNTH_DIR = os.path.join(VERIF, ".cache", "dpp_synth")


def ensure_synth_chip(size):
    """DPP/MDPP need chip data files that are not in the sandbox: synthetic files of the right shapes are
    written to a scratch directory (the stepping logic only needs the grid size; the decap reward simulator is
    not exercised)."""
    d = os.path.join(SYNTH_DIR, f"{size}x{size}")
    os.makedirs(d, exist_ok=True)
    nf = 2
    files = dict(chip=f"{size}x{size}_pkg_chip.npy", decap="01nF_decap.npy", freq=f"freq_{nf}.npy")
    rng = np.random.RandomState(size)
    if not os.path.exists(os.path.join(d, files["chip"])):
        a = rng.rand(nf, size * size, size * size) + 1j * rng.rand(nf, size * size, size * size)
        a = a + np.eye(size * size)[None] * size * size
        np.save(os.path.join(d, files["chip"]), a.astype(np.complex64))
        np.save(os.path.join(d, files["decap"]), (rng.rand(nf, 1, 1) + 1j * rng.rand(nf, 1, 1)).astype(np.complex64))
        np.save(os.path.join(d, files["freq"]), np.linspace(1e6, 1e9, nf).astype(np.float32))
    return d, files


def _with_default_chip(make):
    root = os.path.join(SYNTH_DIR, "default_cwd")
    d = os.path.join(root, "data", "dpp")
    os.makedirs(d, exist_ok=True)
    if not os.path.exists(os.path.join(d, "10x10_pkg_chip.npy")):
        rng = np.random.RandomState(10)
        nf = 201
        a = (rng.rand(nf, 100, 100) + 1j * rng.rand(nf, 100, 100)).astype(np.complex64)
        np.save(os.path.join(d, "10x10_pkg_chip.npy"), a)
        np.save(os.path.join(d, "01nF_decap.npy"), (rng.rand(nf, 1, 1) + 1j * rng.rand(nf, 1, 1)).astype(np.complex64))
        np.save(os.path.join(d, "freq_201.npy"), np.linspace(1e6, 1e9, nf).astype(np.float32))
    cwd = os.getcwd()
    os.chdir(root)
    try:
        return make()
    finally:
        os.chdir(cwd)


class SelSpec:
    """NB: the generators give every row of a batch the same quota; `batch_group` keeps the harness from
    stacking instances with different quotas (mixed quotas are outside the documented input format)."""

    fixed_horizon = True

    def batch_group(self, inst):
        return self.step_bound(inst)

    has_checker = False
    family = "selection"

    def __init__(self, key, kind):
        self.key = key
        self.kind = kind
        self._envs = {}
        self._inst_cache = {}

    def instances(self, tier, seed):
        ck = (tier, seed)
        if ck not in self._inst_cache:
            out = list(self.hand_instances(tier)) + list(self.seeded_instances(tier, seed))
            ids = [i for i, _ in out]
            assert len(ids) == len(set(ids)), f"duplicate ids in {self.key}"
            self._inst_cache[ck] = out
        return self._inst_cache[ck]

    def seeded_instances(self, tier, seed):
        return []


PTS = [(0.125, 0.125), (0.625, 0.25), (0.875, 0.75), (0.375, 0.875), (0.25, 0.5), (0.75, 0.125)]


class FLPSpec(SelSpec):
    def __init__(self):
        super().__init__("flp", "flp")

    def step_bound(self, inst):
        return int(inst["to_choose"])

    def env(self, inst, check_solution=False):
        n = len(inst["locs"])
        ck = (n, int(inst["to_choose"]))
        if ck not in self._envs:
            self._envs[ck] = FLPEnv(generator_params=dict(num_loc=n, to_choose=int(inst["to_choose"])))
        return self._envs[ck]

    def td(self, inst):
        locs = torch.tensor([inst["locs"]], dtype=torch.float32)
        n = locs.shape[1]
        dist = (locs[:, :, None, :] - locs[:, None, :, :]).norm(p=2, dim=-1)
        if "gen_orig_distances" in inst:  # generator-made instance: the generator's own distance matrix, verbatim
            dist = torch.tensor([inst["gen_orig_distances"]], dtype=torch.float32)
        return TensorDict(
            dict(locs=locs, orig_distances=dist, distances=torch.full((1, n), math.sqrt(2.0)), chosen=torch.zeros(1, n, dtype=torch.bool), to_choose=torch.tensor([int(inst["to_choose"])], dtype=torch.long)),
            batch_size=[1],
        )

    def hand_instances(self, tier):
        out = []
        sizes = (4, 5) if tier == "quick" else (4, 5, 6)
        for n in sizes:
            for k in range(1, n):
                out.append((f"flp{n}-k{k}", dict(locs=PTS[:n], to_choose=k)))
        out.append(("flp4-dup-k2", dict(locs=[PTS[0], PTS[0], PTS[1], PTS[2]], to_choose=2)))
        # coordinates outside the unit square (e.g. a normal location distribution): distances exceed the box diagonal
        out.append(("flp4-far-k1", dict(locs=[(0.0, 0.0), (3.0, 0.0), (0.0, 4.0), (3.0, 4.0)], to_choose=1)))
        out.append(("flp4-far-k2", dict(locs=[(0.0, 0.0), (3.0, 0.0), (0.0, 4.0), (3.0, 4.0)], to_choose=2)))
        return out

    def seeded_instances(self, tier, seed):
        out = []
        g = torch.Generator().manual_seed(7000 + seed)
        for j in range(2):
            locs = torch.rand(5, 2, generator=g).tolist()
            out.append((f"gen5-s{seed}-{j}", dict(locs=locs, to_choose=2 + j)))
        # instances exactly as the library's generator emits them under a documented unbounded location sampler
        from rl4co.envs.graph.flp.generator import FLPGenerator

        with torch.random.fork_rng():
            for j, dk in enumerate([dict(loc_distribution="normal", loc_mean=0.5, loc_std=0.5), dict(loc_distribution="normal", loc_mean=0.0, loc_std=1.0)]):
                torch.manual_seed(7100 + 31 * seed + j)
                td = FLPGenerator(num_loc=5, to_choose=2, **dk)(1)
                out.append((f"gen5-normal-s{seed}-{j}", dict(locs=td["locs"][0].tolist(), to_choose=2, gen_orig_distances=td["orig_distances"][0].tolist())))
            # more than 25 locations (distance-matrix kernels switch algorithm with size), on the unit square and far from
            # the origin, where a float32 matrix-product formula for distances loses its digits
            for j, dk in enumerate([dict(), dict(min_loc=100.0, max_loc=101.0)]):
                torch.manual_seed(7300 + 31 * seed + j)
                td = FLPGenerator(num_loc=30, to_choose=1, **dk)(1)
                out.append((f"gen30-{'unit' if not dk else 'far'}-s{seed}", dict(locs=td["locs"][0].tolist(), to_choose=1 if dk else 2, gen_orig_distances=td["orig_distances"][0].tolist())))
        return out

    # ground truth
    @staticmethod
    def distances_after(inst, chosen):
        locs = inst["locs"]
        return [min(math.dist(locs[i], locs[c]) for c in chosen) for i in range(len(locs))]

    @staticmethod
    def objective(inst, chosen):
        return -sum(FLPSpec.distances_after(inst, chosen))


class MCPSpec(SelSpec):
    def __init__(self):
        super().__init__("mcp", "mcp")

    def step_bound(self, inst):
        return int(inst["n_sets_to_choose"])

    def env(self, inst, check_solution=False):
        S = len(inst["membership"])
        ck = (S, len(inst["weights"]), int(inst["n_sets_to_choose"]))
        if ck not in self._envs:
            self._envs[ck] = MCPEnv(generator_params=dict(num_items=len(inst["weights"]), num_sets=S, n_sets_to_choose=int(inst["n_sets_to_choose"]), min_size=1, max_size=len(inst["membership"][0])))
        return self._envs[ck]

    def td(self, inst):
        return TensorDict(
            dict(
                membership=torch.tensor([inst["membership"]], dtype=torch.float32),
                weights=torch.tensor([inst["weights"]], dtype=torch.float32),
                n_sets_to_choose=torch.tensor([[float(inst["n_sets_to_choose"])]]),
            ),
            batch_size=[1],
        )

    def hand_instances(self, tier):
        out = []
        # all membership tables of 3 sets over 4 items with <= 2 slots (0 = padding), a weight vector, quotas 1..2
        slots = [(a, b) for a in range(0, 5) for b in range(0, 5) if (a <= b) and not (a == 0 and b == 0) or (a, b) == (0, 0)]
        slots = [s for s in slots if s != (0, 0)] + [(0, 0)]
        if tier == "quick":
            slots = [(1, 2), (2, 3), (0, 4), (1, 1), (0, 0), (3, 4)]
        tabs = list(itertools.combinations_with_replacement(slots, 3))
        if tier == "quick":
            tabs = tabs[::2]
        for ti, tab in enumerate(tabs):
            for k in (1, 2):
                out.append((f"mcp3x4-{ti}-k{k}", dict(membership=[list(map(float, s)) for s in tab], weights=[1.0, 2.0, 3.0, 4.0], n_sets_to_choose=k)))
        out.append(("mcp4x5-k3", dict(membership=[[1.0, 2.0, 0.0], [2.0, 3.0, 4.0], [5.0, 0.0, 0.0], [1.0, 5.0, 3.0]], weights=[1.0, 1.0, 2.0, 3.0, 5.0], n_sets_to_choose=3)))
        return out

    @staticmethod
    def covered(inst, chosen):
        items = set()
        for s in chosen:
            items |= {int(x) for x in inst["membership"][s] if x > 0}
        return items

    @staticmethod
    def weights_after(inst, chosen):
        cov = MCPSpec.covered(inst, chosen)
        return [0.0 if (i + 1) in cov else w for i, w in enumerate(inst["weights"])]

    @staticmethod
    def objective(inst, chosen):
        cov = MCPSpec.covered(inst, chosen)
        return sum(inst["weights"][i - 1] for i in cov)


class DPPSpec(SelSpec):
    def __init__(self, key, multi):
        super().__init__(key, "mdpp" if multi else "dpp")
        self.multi = multi

    def step_bound(self, inst):
        return int(inst["quota"])

    def env(self, inst, check_solution=False):
        size = int(inst["size"])
        ck = (size, int(inst["quota"]))
        if ck not in self._envs:
            d, files = ensure_synth_chip(size)
            gp = dict(data_dir=d, chip_file=files["chip"], decap_file=files["decap"], freq_file=files["freq"], max_decaps=int(inst["quota"]), num_keepout_min=1, num_keepout_max=3)
            try:
                self._envs[ck] = (MDPPEnv if self.multi else DPPEnv)(generator_params=gp)
            except Exception:
                # an environment that insists on the default chip files (absent here, and not downloadable) is
                # given synthetic default files in a scratch working directory, so that its stepping logic can
                # still be judged instead of the harness failing
                self._envs[ck] = _with_default_chip(lambda: (MDPPEnv if self.multi else DPPEnv)(generator_params=gp))
        return self._envs[ck]

    def td(self, inst):
        size = int(inst["size"])
        n = size * size
        gx, gy = torch.meshgrid(torch.arange(size), torch.arange(size))
        locs = (torch.stack((gx, gy), -1).reshape(-1, 2) / torch.tensor([size, size], dtype=torch.float))[None]
        avail = torch.ones(1, n, dtype=torch.bool)
        for c in inst["keepout"]:
            avail[0, c] = False
        if self.multi:
            probe = torch.zeros(1, n, dtype=torch.bool)
            for c in inst["probes"]:
                probe[0, c] = True
                if inst.get("premask_probes", True):
                    avail[0, c] = False  # the generator already clears the probing ports in action_mask; hand-built data need not
        else:
            probe = torch.tensor([[int(inst["probes"][0])]], dtype=torch.long)
            avail[0, int(inst["probes"][0])] = False
        if "gen_mask" in inst:  # generator-made instance: the generator's own action_mask, verbatim
            avail = torch.tensor([inst["gen_mask"]], dtype=torch.bool)
        return TensorDict(dict(locs=locs, probe=probe, action_mask=avail), batch_size=[1])

    def seeded_instances(self, tier, seed):
        """instances exactly as the environment's generator emits them (ports, keep-out cells AND its action_mask)"""
        out = []
        size, quota = 3, 2
        env = self.env(dict(size=size, quota=quota))
        with torch.random.fork_rng():
            for j in range(4 if tier == "quick" else 12):
                torch.manual_seed(8100 + 97 * seed + j)
                td = env.generator(batch_size=[1])
                mask = td["action_mask"][0].bool().tolist()
                probes = td["probe"][0].bool().nonzero().flatten().tolist() if self.multi else [int(td["probe"][0, 0])]
                keepout = [c for c in range(size * size) if not mask[c] and c not in probes]
                if sum(1 for c in range(size * size) if c not in probes and c not in keepout) < quota:
                    continue
                out.append((f"{self.kind}3-gen-s{seed}-{j}", dict(size=size, probes=probes, keepout=keepout, quota=quota, gen_mask=mask)))
        return out

    def hand_instances(self, tier):
        out = []
        size = 3
        cells = range(size * size)
        quota = 2
        probe_sets = [[p] for p in cells] if not self.multi else [[0], [0, 4], [2, 6, 8], [4, 5]]
        for ps in probe_sets:
            others = [c for c in cells if c not in ps]
            kos = [()] + [(c,) for c in others[:: 2 if tier == "quick" else 1]] + [tuple(others[:3]), tuple(others[-4:])]
            for ko in kos:
                if len(others) - len(ko) < quota:
                    continue
                out.append((f"{self.kind}3-p{''.join(map(str, ps))}-k{''.join(map(str, ko))}-q{quota}", dict(size=size, probes=ps, keepout=list(ko), quota=quota)))
        if self.multi:
            # hand-supplied instances whose action_mask only encodes the keep-out cells (ports are given by `probe`)
            out.append(("mdpp3-raw-p048-k1-q2", dict(size=3, probes=[0, 4, 8], keepout=[1], quota=2, premask_probes=False)))
            out.append(("mdpp3-raw-p26-k-q3", dict(size=3, probes=[2, 6], keepout=[], quota=3, premask_probes=False)))
        if tier != "quick":
            out.append((f"{self.kind}4-q3", dict(size=4, probes=[5] if not self.multi else [5, 10], keepout=[0, 15, 3], quota=3)))
        else:
            out.append((f"{self.kind}3-q3", dict(size=3, probes=[4], keepout=[0, 8], quota=3)))
        return out


def all_specs():
    return [FLPSpec(), MCPSpec(), DPPSpec("dpp", False), DPPSpec("mdpp", True)]


SPECS = {s.key: s for s in all_specs()}
