"""E3 ChoiceExplorer: the RNG seam and the stateless, deviation-bounded exploration of its answers.

All randomness inside rl4co goes through a handful of torch primitives.  `Seam` replaces them, inside a
`with seam.active():` region only, by functions that take their answer from a *script*: every call (for
multinomial: every row of every call) is a choice point with a finite answer alphabet; answer 0 is the
default.  `explore(run, max_dev)` runs `run(seam)` once with all-default answers, then re-runs it for every
alternative answer at every choice point (recursively, replaying the prefix), bounded by the number of
non-default answers (deviations); max_dev=None enumerates the complete choice tree.

Answer alphabets
  multinomial(probs, 1)       every index with probability > 0 (per row); default: the first such index
  rand / rand_like / uniform_ seeded (default), all-low, all-high (1-2^-24), ramp up, ramp down, alternating
  randint / random_           seeded, all-low, all-high-1, ramp
  randperm(n)                 n <= 4: all n! permutations (identity first); else identity, reverse, seeded
  randn / normal / normal_    seeded, mean, mean+2 sigma, mean-2 sigma
  exponential_ / poisson / bernoulli   seeded only (forwarded to the real primitive under a private generator)
A primitive that draws from the global generator without going through the seam is detected by comparing the
global RNG state before and after the region (`unowned` flag).
"""
from __future__ import annotations

import contextlib
import itertools
import math

import torch

_ORIG = {}


def _save_originals():
    if _ORIG:
        return
    for name in ("multinomial", "rand", "rand_like", "randint", "randperm", "randn", "randn_like", "normal", "poisson", "bernoulli"):
        _ORIG[name] = getattr(torch, name)
    for name in ("multinomial", "uniform_", "normal_", "random_", "exponential_", "bernoulli_"):
        _ORIG["T." + name] = getattr(torch.Tensor, name)


class ReplayDivergence(RuntimeError):
    pass


class Seam:
    def __init__(self, script=(), seed=0, float_patterns=True, perm_all_upto=4, label_sites=False, tie_rows=False, tile_rows=False):
        _save_originals()
        self.script = list(script)
        self.seed = seed
        self.points = []  # (kind, n_alternatives, chosen)
        self.float_patterns = float_patterns
        self.perm_all_upto = perm_all_upto
        self.unowned = False
        self.calls = []
        # tie_rows: the rows of one multinomial call are copies of the same state (used where the library does not
        # support batch size 1): ONE choice point per call, every row takes the answer of the same rank
        self.tie_rows = tie_rows
        # tile_rows: uniform draws of shape [B, ...] give every row the same values (row-keyed answer: a row's draw
        # does not depend on its position or on the batch size) - used for policies that draw random numbers at inference
        self.tile_rows = tile_rows

    # ---- choice bookkeeping -------------------------------------------------------------------
    def choose(self, kind, n_alt):
        i = len(self.points)
        c = self.script[i] if i < len(self.script) else 0
        if c >= n_alt or c < 0:
            raise ReplayDivergence(f"choice point {i} ({kind}) has {n_alt} alternatives, script asks for {c}")
        self.points.append((kind, n_alt, c))
        return c

    def choices(self):
        return [c for _, _, c in self.points]

    def _gen(self):
        g = torch.Generator()
        g.manual_seed(1_000_003 * (self.seed + 1) + len(self.points))
        return g

    # ---- answers ------------------------------------------------------------------------------
    def _unit_pattern(self, shape, dtype, device):
        """values in [0,1) according to the chosen pattern"""
        n_alt = 6 if self.float_patterns else 1
        if self.tile_rows and len(shape) >= 2:
            full = tuple(shape)
            shape = tuple(shape[1:])
            one = self._unit_pattern_inner(shape, dtype, None, n_alt)
            out = one.unsqueeze(0).expand(full).clone()
            return out.to(device) if device is not None else out
        return self._unit_pattern_inner(shape, dtype, device, n_alt)

    def _unit_pattern_inner(self, shape, dtype, device, n_alt):
        c = self.choose("rand", n_alt)
        numel = int(math.prod(shape)) if len(shape) else 1
        dtype = dtype if dtype in (torch.float32, torch.float64, torch.float16, torch.bfloat16) else torch.float32
        hi = 1.0 - 2.0**-24
        if c == 0:
            g = self._gen()
            out = _ORIG["rand"](tuple(shape), generator=g, dtype=dtype)
        elif c == 1:
            out = torch.zeros(tuple(shape), dtype=dtype)
        elif c == 2:
            out = torch.full(tuple(shape), hi, dtype=dtype)
        elif c == 3:
            out = (torch.arange(numel, dtype=torch.float64) / max(1, numel)).to(dtype).reshape(tuple(shape))
        elif c == 4:
            out = (torch.arange(numel - 1, -1, -1, dtype=torch.float64) / max(1, numel)).to(dtype).reshape(tuple(shape))
        else:
            out = (torch.arange(numel) % 2).to(dtype).mul(hi).reshape(tuple(shape))
        return out.to(device) if device is not None else out

    def multinomial(self, probs=None, num_samples=1, replacement=False, *, generator=None, out=None, input=None):
        self.calls.append("multinomial")
        if len(self.calls) > MAX_DRAWS:
            # a redraw-until-feasible loop inside the library never ends under a deterministic answer: surfaced as an
            # error of the execution (reported by the checks) instead of a hung check
            raise SeamLoop(f"RNG seam: more than {MAX_DRAWS} draws in one execution (a resampling loop that never accepts the sampler's answer)")
        if probs is None:
            probs = input
        p2 = probs.reshape(-1, probs.shape[-1]) if probs.dim() > 1 else probs.reshape(1, -1)
        rows = []
        tied = None
        for r in range(p2.shape[0]):
            en = (p2[r] > 0).nonzero().flatten().tolist()
            if self.tie_rows and num_samples == 1 and en:
                if tied is None:
                    tied = self.choose("multinomial", len(en))
                rows.append([en[min(tied, len(en) - 1)]])
                continue
            if not en:
                raise RuntimeError("multinomial over a row without positive probability")
            if num_samples == 1:
                c = self.choose("multinomial", len(en))
                rows.append([en[c]])
            else:
                k = num_samples
                if not replacement and len(en) < k:
                    raise RuntimeError("cannot sample n_sample > prob_dist.size(-1) samples without replacement")
                c = self.choose("multinomial_k", 3 if len(en) > 1 else 1)
                if replacement:
                    pick = [en[0]] * k if c == 0 else ([en[-1]] * k if c == 1 else [en[i % len(en)] for i in range(k)])
                else:
                    pick = en[:k] if c == 0 else (en[-k:] if c == 1 else en[::-1][:k])
                rows.append(pick)
        res = torch.tensor(rows, dtype=torch.long, device=probs.device)
        if probs.dim() == 1:
            res = res[0]
        elif probs.dim() > 2:
            res = res.reshape(*probs.shape[:-1], num_samples)
        return res

    def rand(self, *size, generator=None, out=None, dtype=None, layout=None, device=None, requires_grad=False, pin_memory=False):
        self.calls.append("rand")
        if len(size) == 1 and isinstance(size[0], (tuple, list, torch.Size)):
            size = tuple(size[0])
        return self._unit_pattern(size, dtype or torch.get_default_dtype(), device)

    def rand_like(self, t, *, dtype=None, layout=None, device=None, requires_grad=False, memory_format=None):
        self.calls.append("rand_like")
        return self._unit_pattern(t.shape, dtype or t.dtype, device or t.device)

    def uniform_(self, t, a=0.0, b=1.0, *, generator=None, **kw):
        self.calls.append("uniform_")
        if "from" in kw:
            a = kw["from"]
        if "to" in kw:
            b = kw["to"]
        u = self._unit_pattern(t.shape, t.dtype, t.device)
        with torch.no_grad():
            t.copy_(a + (b - a) * u)
        return t

    def randint(self, *args, generator=None, out=None, dtype=None, layout=None, device=None, requires_grad=False, **kw):
        self.calls.append("randint")
        # torch.randint(high, size) | torch.randint(low, high, size), each argument positional or keyword
        args = list(args)
        size = kw.get("size")
        if size is None:
            size = args.pop()
        if "low" in kw and "high" in kw:
            low, high = kw["low"], kw["high"]
        elif "high" in kw:
            low, high = (args[0] if args else 0), kw["high"]
        elif "low" in kw:
            low, high = kw["low"], args[0]
        elif len(args) == 1:
            low, high = 0, args[0]
        else:
            low, high = args[0], args[1]
        size = tuple(size)
        numel = int(math.prod(size)) if len(size) else 1
        c = self.choose("randint", 4 if high - low > 1 else 1)
        dt = dtype or torch.int64
        if c == 0:
            res = _ORIG["randint"](low, high, size, generator=self._gen(), dtype=dt)
        elif c == 1:
            res = torch.full(size, low, dtype=dt)
        elif c == 2:
            res = torch.full(size, high - 1, dtype=dt)
        else:
            res = (low + torch.arange(numel) % (high - low)).to(dt).reshape(size)
        return res.to(device) if device is not None else res

    def random_(self, t, *args, generator=None, **kw):
        self.calls.append("random_")
        c = self.choose("random_", 1)
        with torch.no_grad():
            _ORIG["T.random_"](t, *args, generator=self._gen(), **kw)
        return t

    def randperm(self, n, *, generator=None, out=None, dtype=torch.int64, layout=None, device=None, requires_grad=False, pin_memory=False):
        self.calls.append("randperm")
        if n <= self.perm_all_upto:
            perms = list(itertools.permutations(range(n)))
            c = self.choose("randperm", len(perms))
            res = torch.tensor(perms[c], dtype=dtype)
        else:
            c = self.choose("randperm", 3)
            if c == 0:
                res = torch.arange(n, dtype=dtype)
            elif c == 1:
                res = torch.arange(n - 1, -1, -1, dtype=dtype)
            else:
                res = _ORIG["randperm"](n, generator=self._gen(), dtype=dtype)
        return res.to(device) if device is not None else res

    def _normal_pattern(self, shape, dtype, device, mean=0.0, std=1.0):
        c = self.choose("normal", 4 if self.float_patterns else 1)
        dtype = dtype if dtype in (torch.float32, torch.float64) else torch.float32
        if c == 0:
            z = _ORIG["randn"](tuple(shape), generator=self._gen(), dtype=dtype)
        elif c == 1:
            z = torch.zeros(tuple(shape), dtype=dtype)
        elif c == 2:
            z = torch.full(tuple(shape), 2.0, dtype=dtype)
        else:
            z = torch.full(tuple(shape), -2.0, dtype=dtype)
        out = mean + std * z
        return out.to(device) if device is not None else out

    def randn(self, *size, generator=None, out=None, dtype=None, layout=None, device=None, requires_grad=False, pin_memory=False):
        self.calls.append("randn")
        if len(size) == 1 and isinstance(size[0], (tuple, list, torch.Size)):
            size = tuple(size[0])
        return self._normal_pattern(size, dtype or torch.get_default_dtype(), device)

    def randn_like(self, t, **kw):
        self.calls.append("randn_like")
        return self._normal_pattern(t.shape, t.dtype, t.device)

    def normal(self, mean=0.0, std=1.0, size=None, *, generator=None, out=None, **kw):
        self.calls.append("normal")
        if isinstance(mean, torch.Tensor) or isinstance(std, torch.Tensor):
            m = mean if isinstance(mean, torch.Tensor) else torch.as_tensor(mean)
            s = std if isinstance(std, torch.Tensor) else torch.as_tensor(std)
            shape = torch.broadcast_shapes(m.shape, s.shape)
            dt = m.dtype if isinstance(mean, torch.Tensor) else s.dtype
            return self._normal_pattern(shape, dt, None, m, s)
        return self._normal_pattern(tuple(size), kw.get("dtype") or torch.get_default_dtype(), kw.get("device"), mean, std)

    def normal_(self, t, mean=0.0, std=1.0, *, generator=None):
        self.calls.append("normal_")
        with torch.no_grad():
            t.copy_(self._normal_pattern(t.shape, t.dtype, t.device, mean, std))
        return t

    def _forward_seeded(self, key, *a, **kw):
        self.calls.append(key)
        self.choose(key, 1)
        kw = dict(kw)
        kw["generator"] = self._gen()
        return _ORIG[key](*a, **kw)

    # ---- activation ---------------------------------------------------------------------------
    @contextlib.contextmanager
    def active(self):
        s = self
        before = torch.get_rng_state()
        torch.multinomial = s.multinomial
        torch.Tensor.multinomial = lambda t, num_samples=1, replacement=False, **kw: s.multinomial(t, num_samples, replacement)
        torch.multinomial = lambda *a, **kw: s.multinomial(*a, **kw)
        torch.rand = s.rand
        torch.rand_like = s.rand_like
        torch.randint = s.randint
        torch.randperm = s.randperm
        torch.randn = s.randn
        torch.randn_like = s.randn_like
        torch.normal = s.normal
        torch.poisson = lambda *a, **kw: s._forward_seeded("poisson", *a, **kw)
        torch.bernoulli = lambda *a, **kw: s._forward_seeded("bernoulli", *a, **kw)
        torch.Tensor.uniform_ = lambda t, *a, **kw: s.uniform_(t, *a, **kw)
        torch.Tensor.normal_ = lambda t, *a, **kw: s.normal_(t, *a, **kw)
        torch.Tensor.random_ = lambda t, *a, **kw: s.random_(t, *a, **kw)
        torch.Tensor.exponential_ = lambda t, *a, **kw: s._forward_seeded("T.exponential_", t, *a, **kw)
        torch.Tensor.bernoulli_ = lambda t, *a, **kw: s._forward_seeded("T.bernoulli_", t, *a, **kw)
        try:
            yield s
        finally:
            for name in ("multinomial", "rand", "rand_like", "randint", "randperm", "randn", "randn_like", "normal", "poisson", "bernoulli"):
                setattr(torch, name, _ORIG[name])
            for name in ("multinomial", "uniform_", "normal_", "random_", "exponential_", "bernoulli_"):
                setattr(torch.Tensor, name, _ORIG["T." + name])
            after = torch.get_rng_state()
            if not torch.equal(before, after):
                s.unowned = True


def n_deviations(choices):
    return sum(1 for c in choices if c != 0)


def explore(run, max_dev=None, limit=200_000, seed=0, **seam_kw):
    """Stateless exploration.  run(seam) -> result (the callee uses `with seam.active():` around library code).
    Yields (choices, result, seam) for every execution.  Raises if `limit` executions are exceeded (a capped
    run must not be mistaken for an exhaustive one: callers catch ExplorationCapped)."""
    stack = [[]]
    n = 0
    while stack:
        prefix = stack.pop()
        seam = Seam(prefix, seed=seed, **seam_kw)
        res = run(seam)
        n += 1
        if n > limit:
            raise ExplorationCapped(n)
        ch = seam.choices()
        if ch[: len(prefix)] != prefix:
            raise ReplayDivergence(f"prefix {prefix} replayed as {ch[:len(prefix)]}")
        yield ch, res, seam
        base_dev = n_deviations(ch[: len(prefix)])
        for i in range(len(ch) - 1, len(prefix) - 1, -1):
            dev_before = base_dev + n_deviations(ch[len(prefix) : i])
            if max_dev is not None and dev_before + 1 > max_dev:
                continue
            for alt in range(seam.points[i][1] - 1, 0, -1):
                stack.append(ch[:i] + [alt])


MAX_DRAWS = 20_000


class SeamLoop(RuntimeError):
    pass


class ExplorationCapped(RuntimeError):
    pass
