"""Scheduling environments under exploration (FJSP, JSSP, FFSP, SMTWTP): specs + instance alphabets."""
from __future__ import annotations

import itertools

import torch
from tensordict import TensorDict

from .core import quiet

quiet()

from rl4co.envs import FFSPEnv, FJSPEnv, JSSPEnv, SMTWTPEnv  # noqa: E402

from .oracles import sched as OS  # noqa: E402
from .routing import td_to_inst  # noqa: E402


class SSpec:
    fixed_horizon = False
    has_checker = False
    family = "sched"

    def __init__(self, key, kind):
        self.key = key
        self.kind = kind
        self._envs = {}
        self._inst_cache = {}

    def step_bound(self, inst):
        return None

    def instances(self, tier, seed):
        ck = (tier, seed)
        if ck not in self._inst_cache:
            out = list(self.hand_instances(tier)) + list(self.seeded_instances(tier, seed))
            ids = [i for i, _ in out]
            assert len(ids) == len(set(ids)), f"duplicate ids in {self.key}"
            self._inst_cache[ck] = out
        return self._inst_cache[ck]

    def seeded_instances(self, tier, seed):
        return []


# ----------------------------------------------------------------------------------------- FJSP / JSSP


def fjsp_inst(job_ops, table, n_ops_max, num_mas):
    """job_ops: list of op counts per job; table: list over real ops of dict machine->time"""
    starts, ends = [], []
    o = 0
    for c in job_ops:
        starts.append(o)
        ends.append(o + c - 1)
        o += c
    n_real = o
    proc = [[0.0] * n_ops_max for _ in range(num_mas)]
    for op, row in enumerate(table):
        for m, t in row.items():
            proc[m][op] = float(t)
    pad = [i >= n_real for i in range(n_ops_max)]
    return dict(start_op_per_job=starts, end_op_per_job=ends, proc_times=proc, pad_mask=pad, _dtypes=dict(start_op_per_job="int64", end_op_per_job="int64", pad_mask="bool"))


class FJSPSpec(SSpec):
    def __init__(self, key, jssp, mask_no_ops):
        super().__init__(key, "jssp" if jssp else "fjsp")
        self.jssp = jssp
        self.mask_no_ops = mask_no_ops

    def dims(self, inst):
        return len(inst["start_op_per_job"]), len(inst["proc_times"]), len(inst["pad_mask"])

    def env(self, inst, check_solution=False):
        J, M, O = self.dims(inst)
        ck = (J, M, O)
        if ck not in self._envs:
            cls = JSSPEnv if self.jssp else FJSPEnv
            gp = dict(num_jobs=J, num_machines=M)
            if not self.jssp:
                gp.update(min_ops_per_job=1, max_ops_per_job=max(1, O // J))
            self._envs[ck] = cls(generator_params=gp, mask_no_ops=self.mask_no_ops)
        return self._envs[ck]

    def td(self, inst):
        return TensorDict(
            dict(
                start_op_per_job=torch.tensor([inst["start_op_per_job"]], dtype=torch.int64),
                end_op_per_job=torch.tensor([inst["end_op_per_job"]], dtype=torch.int64),
                proc_times=torch.tensor([inst["proc_times"]], dtype=torch.float32),
                pad_mask=torch.tensor([inst["pad_mask"]], dtype=torch.bool),
            ),
            batch_size=[1],
        )

    def hand_instances(self, tier):
        out = []
        if self.jssp:
            # 2 jobs x 2 machines, each job visits both machines (one2one) or arbitrary single machines
            times = (1, 2, 3)
            combos = []
            for order in itertools.product(((0, 1), (1, 0)), repeat=2):
                for tt in ([1, 2, 3, 1], [2, 2, 1, 3], [1, 1, 1, 1], [3, 1, 2, 2]):
                    combos.append((order, tt))
            for ci, (order, tt) in enumerate(combos):
                table = []
                k = 0
                for j in range(2):
                    for m in order[j]:
                        table.append({m: tt[k]})
                        k += 1
                out.append((f"jssp2x2-{ci}", fjsp_inst([2, 2], table, 4, 2)))
            # same machine twice for a job, and a 3x2 instance
            out.append(("jssp2x2-same", fjsp_inst([2, 2], [{0: 2}, {0: 1}, {0: 1}, {1: 3}], 4, 2)))
            # jobs of unequal length (padded to the common operation count)
            out.append(("jssp2x2-u12", fjsp_inst([1, 2], [{0: 2}, {1: 1}, {0: 3}], 4, 2)))
            out.append(("jssp2x2-u21", fjsp_inst([2, 1], [{1: 2}, {0: 1}, {1: 3}], 4, 2)))
            # long horizons: the clock passes the library's "not yet scheduled" sentinel (INIT_FINISH = 9999) while a job is idle
            out.append(("jssp2x2-long", fjsp_inst([2, 2], [{0: 6000}, {1: 5000}, {0: 6000}, {1: 1}], 4, 2)))
            out.append(("jssp3x1-long", fjsp_inst([1, 1, 1], [{0: 6000}, {0: 5000}, {0: 1}], 3, 1)))
            # ... and operations (the last one included) that finish at exactly the sentinel value
            out.append(("jssp3x1-sentinel", fjsp_inst([1, 1, 1], [{0: 4999}, {0: 4999}, {0: 1}], 3, 1)))
            out.append(("jssp2x2-sentinel", fjsp_inst([2, 2], [{0: 4999}, {1: 5000}, {1: 4999}, {0: 5000}], 4, 2)))
            if tier != "quick":
                out.append(("jssp3x2-a", fjsp_inst([2, 2, 2], [{0: 2}, {1: 1}, {1: 2}, {0: 2}, {0: 1}, {1: 3}], 6, 2)))
                out.append(("jssp2x3-a", fjsp_inst([3, 3], [{0: 2}, {1: 1}, {2: 2}, {2: 1}, {0: 2}, {1: 3}], 6, 3)))
            return out
        # FJSP: 2 jobs, 2 machines, <= 2 ops per job, padded to 4 ops; all eligibility patterns x a few time vectors
        elig = [(1, 0), (0, 1), (1, 1)]
        idx = 0
        for job_ops in ([2, 2], [1, 2], [2, 1], [1, 1]):
            n_real = sum(job_ops)
            pats = list(itertools.product(elig, repeat=n_real))
            if tier == "quick":
                pats = pats[:: max(1, len(pats) // 9)]
            for pat in pats:
                for tv in ([1, 2, 3, 2, 1, 3, 2, 2], [2, 2, 2, 2, 2, 2, 2, 2]) if tier == "quick" else ([1, 2, 3, 2, 1, 3, 2, 2], [2, 2, 2, 2, 2, 2, 2, 2], [3, 1, 1, 3, 2, 1, 1, 2]):
                    table = []
                    k = 0
                    for e in pat:
                        row = {}
                        for m in (0, 1):
                            if e[m]:
                                row[m] = tv[k]
                            k += 1
                        table.append(row)
                    out.append((f"fjsp-{''.join(map(str, job_ops))}-{idx}", fjsp_inst(job_ops, table, 4, 2)))
                    idx += 1
        out.append(("fjsp-long", fjsp_inst([2, 1], [{0: 6000, 1: 7000}, {1: 5000}, {0: 4000}], 4, 2)))
        out.append(("fjsp3x1-long", fjsp_inst([1, 1, 1], [{0: 6000}, {0: 5000}, {0: 1}], 3, 1)))
        out.append(("fjsp3x1-sentinel", fjsp_inst([1, 1, 1], [{0: 4999}, {0: 4999}, {0: 1}], 3, 1)))
        out.append(("fjsp2x2-sentinel", fjsp_inst([2, 2], [{0: 4999, 1: 9999}, {1: 5000}, {1: 4999}, {0: 5000, 1: 1}], 4, 2)))
        if tier != "quick":
            out.append(("fjsp3x2", fjsp_inst([2, 2, 2], [{0: 2, 1: 3}, {1: 1}, {0: 1, 1: 1}, {0: 2}, {1: 2, 0: 3}, {0: 1}], 6, 2)))
        return out

    def seeded_instances(self, tier, seed):
        out = []
        shapes = [(2, 2)] if tier == "quick" else [(2, 2), (3, 2), (2, 3)]
        for J, M in shapes:
            fake = dict(start_op_per_job=[0] * J, proc_times=[[0] * (2 * J)] * M, pad_mask=[0] * (2 * J))
            env = self.env(fake)
            for j in range(2):
                torch.manual_seed(1000 * seed + 17 * J + M + j)
                try:
                    td = env.generator(1)
                except Exception:
                    continue
                inst = td_to_inst(td)
                if len(inst["pad_mask"]) != 2 * J:
                    continue
                out.append((f"gen-{J}x{M}-s{seed}-{j}", inst))
        if self.jssp:
            # the JSSP generator's documented padded mode (jobs of different length, machines drawn freely): rows of ONE
            # generated batch, so that shorter rows carry the generator's own padding
            from rl4co.envs.scheduling.jssp.generator import JSSPGenerator

            torch.manual_seed(2000 * seed + 5)
            try:
                td = JSSPGenerator(num_jobs=2, num_machines=2, min_ops_per_job=1, max_ops_per_job=2, one2one_ma_map=False, min_processing_time=1, max_processing_time=4)(6)
                seen = set()
                for r in range(6):
                    inst = td_to_inst(td[r : r + 1])
                    n_real = sum(1 for x in inst["pad_mask"] if not x)
                    if len(inst["pad_mask"]) == 4 and n_real not in seen:
                        seen.add(n_real)
                        out.append((f"gen-padded-2x2-s{seed}-r{n_real}", inst))
            except Exception:
                pass  # generator crashes are C18's business
        return out


# ----------------------------------------------------------------------------------------- FFSP


class FFSPSpec(SSpec):
    # the library writes FFSP rewards only at the step at which every row of the batch is finished
    reward_needs_all_done = True

    def __init__(self, key, flatten):
        super().__init__(key, "ffsp")
        self.flatten = flatten
        self.num_stage = 2
        self.num_machine = 2

    def env(self, inst, check_solution=False):
        J = len(inst["run_time"])
        if J not in self._envs:
            self._envs[J] = FFSPEnv(generator_params=dict(num_job=J, num_machine=self.num_machine, num_stage=self.num_stage, flatten_stages=self.flatten))
        return self._envs[J]

    def td(self, inst):
        return TensorDict(dict(run_time=torch.tensor([inst["run_time"]], dtype=torch.int64)), batch_size=[1])

    def hand_instances(self, tier):
        out = []
        rows = [[1, 2, 1, 2], [2, 1, 2, 1], [1, 1, 1, 1], [3, 1, 1, 2], [2, 2, 3, 1]]
        for a, b in itertools.combinations_with_replacement(range(len(rows)), 2):
            out.append((f"ffsp2-{a}{b}", dict(run_time=[rows[a], rows[b]])))
        out.append(("ffsp3-012", dict(run_time=[rows[0], rows[1], rows[2]])))
        if tier != "quick":
            out.append(("ffsp3-134", dict(run_time=[rows[1], rows[3], rows[4]])))
            out.append(("ffsp3-333", dict(run_time=[rows[3], rows[3], rows[3]])))
        return out

    def seeded_instances(self, tier, seed):
        out = []
        for J in (2, 3):
            env = self.env(dict(run_time=[[0] * 4] * J))
            torch.manual_seed(1000 * seed + J)
            td = env.generator(1)
            out.append((f"gen-{J}-s{seed}", dict(run_time=td["run_time"][0].tolist())))
        return out


# ----------------------------------------------------------------------------------------- SMTWTP


class SMTWTPSpec(SSpec):
    fixed_horizon = True

    def __init__(self):
        super().__init__("smtwtp", "smtwtp")

    def step_bound(self, inst):
        return len(inst["job_due_time"]) - 1

    def env(self, inst, check_solution=False):
        n = len(inst["job_due_time"]) - 1
        if n not in self._envs:
            self._envs[n] = SMTWTPEnv(generator_params=dict(num_job=n))
        return self._envs[n]

    def td(self, inst):
        return TensorDict({k: torch.tensor([inst[k]], dtype=torch.float32) for k in ("job_due_time", "job_weight", "job_process_time")}, batch_size=[1])

    def hand_instances(self, tier):
        out = [
            ("smt4-a", dict(job_due_time=[0, 1, 2, 3, 2], job_weight=[0, 1, 2, 1, 3], job_process_time=[0, 1, 1, 2, 1])),
            ("smt4-b", dict(job_due_time=[0, 0.5, 0.5, 0.5, 0.5], job_weight=[0, 1, 1, 1, 1], job_process_time=[0, 1, 2, 3, 4])),
            ("smt4-c", dict(job_due_time=[0, 10, 10, 10, 10], job_weight=[0, 1, 2, 3, 4], job_process_time=[0, 1, 1, 1, 1])),
            ("smt3-a", dict(job_due_time=[0, 1, 1, 1], job_weight=[0, 0.5, 0.25, 1], job_process_time=[0, 0.5, 0.25, 1])),
            # documented lower bounds met with equality: a real job with processing time 0 / weight 0 / due time 0
            ("smt4-zero", dict(job_due_time=[0, 1, 0, 2, 1], job_weight=[0, 1, 2, 0, 1], job_process_time=[0, 1, 1, 0, 2])),
            ("smt3-zero-first", dict(job_due_time=[0, 0, 1, 1], job_weight=[0, 1, 1, 1], job_process_time=[0, 0, 0.5, 1])),
        ]
        if tier != "quick":
            out.append(("smt6-a", dict(job_due_time=[0, 1, 2, 3, 2, 1, 4], job_weight=[0, 1, 2, 1, 3, 2, 1], job_process_time=[0, 1, 1, 2, 1, 2, 1])))
        return out

    def seeded_instances(self, tier, seed):
        out = []
        for n in (4,) if tier == "quick" else (4, 5):
            env = self.env(dict(job_due_time=[0] * (n + 1)))
            torch.manual_seed(1000 * seed + n)
            td = env.generator(1)
            out.append((f"gen-{n}-s{seed}", {k: td[k][0].tolist() for k in ("job_due_time", "job_weight", "job_process_time")}))
        return out


def all_specs():
    return [
        FJSPSpec("fjsp:mask", False, True),
        FJSPSpec("fjsp:wait", False, False),
        FJSPSpec("jssp:mask", True, True),
        FJSPSpec("jssp:wait", True, False),
        FFSPSpec("ffsp:flat", True),
        FFSPSpec("ffsp:stage", False),
        SMTWTPSpec(),
    ]


SPECS = {s.key: s for s in all_specs()}
