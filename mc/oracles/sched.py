"""Ground truth for the scheduling problems (FJSP, JSSP, FFSP, SMTWTP): plain Python.

Instances (generator format, plain lists):
  fjsp/jssp: start_op_per_job[J], end_op_per_job[J], proc_times[M][O] (0 = not eligible), pad_mask[O]
  ffsp:      run_time[J][S*M]   (machine k belongs to stage k // M)
  smtwtp:    job_due_time[n+1], job_weight[n+1], job_process_time[n+1]  (index 0 = dummy start job)

Two independent views are offered for every episode:
  * validate_*   : is the schedule the library reports (final TensorDict) a valid schedule of the instance?
  * simulate_*   : the schedule that the documented meaning of the action list produces, computed by a
                   separate event simulator (used for C03/C07 cross-checks and to enumerate the documented
                   dispatching class for C05).
"""
from __future__ import annotations

import itertools


# ------------------------------------------------------------------------------------------ FJSP / JSSP


def fjsp_ops(inst):
    """list of jobs, each a list of real op ids"""
    return [list(range(int(s), int(e) + 1)) for s, e in zip(inst["start_op_per_job"], inst["end_op_per_job"])]


def fjsp_dims(inst):
    return len(inst["start_op_per_job"]), len(inst["proc_times"])


def validate_fjsp(inst, start, finish, assign, makespan_reported=None):
    """start/finish: per op; assign[m][op] in {0,1}.  Returns list of problems (empty = valid)."""
    probs = []
    p = inst["proc_times"]
    J, M = fjsp_dims(inst)
    jobs = fjsp_ops(inst)
    pad = inst["pad_mask"]
    on = {}
    for job in jobs:
        for op in job:
            ms = [m for m in range(M) if assign[m][op] > 0.5]
            if len(ms) != 1:
                probs.append(f"op{op}:assigned_{len(ms)}_times")
                continue
            m = ms[0]
            on[op] = m
            if not p[m][op] > 0:
                probs.append(f"op{op}:machine{m}_not_eligible")
            if abs((finish[op] - start[op]) - p[m][op]) > 1e-6:
                probs.append(f"op{op}:duration_{finish[op] - start[op]}_vs_{p[m][op]}")
            if start[op] < -1e-9:
                probs.append(f"op{op}:negative_start")
        for a, b in zip(job, job[1:]):
            if a in on and b in on and start[b] < finish[a] - 1e-6:
                probs.append(f"job_order:op{b}_starts_before_op{a}_ends")
    for o in range(len(pad)):
        if pad[o] and any(assign[m][o] > 0.5 for m in range(M)):
            probs.append(f"padded_op{o}_scheduled")
    for m in range(M):
        ops = sorted((start[o], finish[o], o) for o, mm in on.items() if mm == m)
        for (s1, f1, o1), (s2, f2, o2) in zip(ops, ops[1:]):
            if s2 < f1 - 1e-6:
                probs.append(f"machine{m}:op{o1}_overlaps_op{o2}")
    if makespan_reported is not None and on:
        mk = max(finish[o] for o in on)
        if abs(mk - makespan_reported) > 1e-6:
            probs.append(f"makespan_{makespan_reported}_vs_{mk}")
    return probs


def decode_fjsp_action(inst, a, jssp):
    J, M = fjsp_dims(inst)
    if a == 0:
        return None
    if jssp:
        return a - 1, None
    return (a - 1) // M, (a - 1) % M


class FJSPSim:
    """Event simulator for the documented action semantics:
    action (job, machine): start the job's next operation now on that machine; action 0: wait, i.e. let time
    advance to the next machine release; time also advances by itself whenever nothing can be started
    (and, if waiting is an offered action, no job is in process)."""

    def __init__(self, inst, jssp=False, mask_no_ops=True):
        self.inst = inst
        self.jssp = jssp
        self.mask_no_ops = mask_no_ops
        self.p = inst["proc_times"]
        self.J, self.M = fjsp_dims(inst)
        self.jobs = fjsp_ops(inst)
        self.t = 0.0
        self.busy = [0.0] * self.M
        self.nxt = [0] * self.J  # index into job's op list
        self.in_proc = [None] * self.J  # finish time of the op in process
        self.done_job = [False] * self.J
        self.sched = {}  # op -> (machine, start, end)
        self._settle()

    def clone(self):
        c = FJSPSim.__new__(FJSPSim)
        c.__dict__.update(self.__dict__)
        c.busy = list(self.busy)
        c.nxt = list(self.nxt)
        c.in_proc = list(self.in_proc)
        c.done_job = list(self.done_job)
        c.sched = dict(self.sched)
        return c

    def done(self):
        return all(self.done_job)

    def machine_of(self, op):
        ms = [m for m in range(self.M) if self.p[m][op] > 0]
        return ms

    def pairs(self):
        out = []
        for j in range(self.J):
            if self.done_job[j] or self.in_proc[j] is not None:
                continue
            op = self.jobs[j][self.nxt[j]]
            for m in range(self.M):
                if self.busy[m] <= self.t and self.p[m][op] > 0:
                    out.append((j, m))
        return out

    def wait_offered(self):
        if self.done():
            return True
        if self.mask_no_ops:
            return False
        return any(x is not None for x in self.in_proc)

    def actions(self):
        """offered actions in the library's numbering"""
        acts = []
        if self.wait_offered():
            acts.append(0)
        prs = self.pairs()
        if self.jssp:
            acts += sorted({1 + j for j, m in prs})
        else:
            acts += sorted(1 + j * self.M + m for j, m in prs)
        return acts

    def _advance(self):
        future = [b for b in self.busy if b > self.t]
        if not future:
            raise RuntimeError("cannot advance time: nothing in process")
        self.t = min(future)
        for j in range(self.J):
            if self.in_proc[j] is not None and self.in_proc[j] <= self.t:
                self.in_proc[j] = None
                if self.nxt[j] == len(self.jobs[j]) - 1:
                    self.done_job[j] = True
                else:
                    self.nxt[j] += 1

    def _settle(self):
        # time advances by itself while no action at all is on offer
        while not self.done() and not self.pairs() and not self.wait_offered():
            self._advance()

    def step(self, a):
        if self.done():
            return
        if a == 0:
            self._advance()
        else:
            if self.jssp:
                j = a - 1
                op = self.jobs[j][self.nxt[j]]
                m = self.machine_of(op)[0]
            else:
                j, m = (a - 1) // self.M, (a - 1) % self.M
                op = self.jobs[j][self.nxt[j]]
            end = self.t + self.p[m][op]
            self.sched[op] = (m, self.t, end)
            self.busy[m] = end
            self.in_proc[j] = end
        self._settle()

    def makespan(self):
        return max(e for (_, _, e) in self.sched.values()) if self.sched else 0.0


def simulate_fjsp(inst, actions, jssp=False, mask_no_ops=True):
    sim = FJSPSim(inst, jssp, mask_no_ops)
    for a in actions:
        sim.step(a)
    return sim


def enumerate_fjsp_class(inst, jssp=False, mask_no_ops=True, limit=2_000_000):
    """all schedules of the documented dispatching class (DFS over the simulator), as a set of frozen schedules"""
    out = set()
    n = [0]

    def rec(sim):
        n[0] += 1
        if n[0] > limit:
            raise RuntimeError("enumeration limit")
        if sim.done():
            out.add(tuple(sorted((op, m, s) for op, (m, s, e) in sim.sched.items())))
            return
        for a in sim.actions():
            c = sim.clone()
            c.step(a)
            rec(c)

    rec(FJSPSim(inst, jssp, mask_no_ops))
    return out


def fjsp_optimum(inst):
    """true minimum makespan: best semi-active schedule over all op orders respecting job order x machine choices"""
    p = inst["proc_times"]
    J, M = fjsp_dims(inst)
    jobs = fjsp_ops(inst)
    best = [float("inf")]

    def rec(nxt, job_free, ma_free, cur_max):
        if cur_max >= best[0]:
            return
        if all(nxt[j] == len(jobs[j]) for j in range(J)):
            best[0] = cur_max
            return
        for j in range(J):
            if nxt[j] == len(jobs[j]):
                continue
            op = jobs[j][nxt[j]]
            for m in range(M):
                if p[m][op] > 0:
                    s = max(job_free[j], ma_free[m])
                    e = s + p[m][op]
                    n2 = list(nxt)
                    n2[j] += 1
                    jf = list(job_free)
                    jf[j] = e
                    mf = list(ma_free)
                    mf[m] = e
                    rec(n2, jf, mf, max(cur_max, e))

    rec([0] * J, [0.0] * J, [0.0] * M, 0.0)
    return best[0]


# ------------------------------------------------------------------------------------------ FFSP


def ffsp_dims(inst, num_stage):
    J = len(inst["run_time"])
    MT = len(inst["run_time"][0])
    return J, MT, MT // num_stage


def validate_ffsp(inst, schedule, num_stage, makespan_reported=None):
    """schedule[m][j] = start time or negative if never"""
    rt = inst["run_time"]
    J, MT, M = ffsp_dims(inst, num_stage)
    probs = []
    ends = []
    for j in range(J):
        prev_end = None
        for s in range(num_stage):
            ms = [m for m in range(s * M, (s + 1) * M) if schedule[m][j] >= 0]
            if len(ms) != 1:
                probs.append(f"job{j}:stage{s}_processed_{len(ms)}_times")
                prev_end = None
                continue
            m = ms[0]
            st = schedule[m][j]
            en = st + rt[j][m]
            if prev_end is not None and st < prev_end:
                probs.append(f"job{j}:stage{s}_starts_before_previous_stage_ends")
            prev_end = en
            ends.append(en)
    for m in range(MT):
        iv = sorted((schedule[m][j], schedule[m][j] + rt[j][m], j) for j in range(J) if schedule[m][j] >= 0)
        for (s1, e1, j1), (s2, e2, j2) in zip(iv, iv[1:]):
            if s2 < e1:
                probs.append(f"machine{m}:job{j1}_overlaps_job{j2}")
    if makespan_reported is not None and ends:
        if abs(max(ends) - makespan_reported) > 1e-6:
            probs.append(f"makespan_{makespan_reported}_vs_{max(ends)}")
    return probs


class FFSPSim:
    """Slot simulator of the documented FFSP decision process: slots are visited in (time, stage, machine)
    order; a decision is taken at every slot whose machine is idle and for which a job is available in that
    stage; the decision is an available job or, if a job may still arrive (a job is in an earlier stage or
    a job of this stage is still being processed), 'skip'."""

    def __init__(self, inst, num_stage):
        self.rt = inst["run_time"]
        self.S = num_stage
        self.J, self.MT, self.M = ffsp_dims(inst, num_stage)
        self.t = 0
        self.k = 0  # slot index within the time unit = machine index
        self.mwait = [0] * self.MT
        self.jwait = [0] * self.J
        self.loc = [0] * self.J
        self.sched = {}  # (machine, job) -> start

    def clone(self):
        c = FFSPSim.__new__(FFSPSim)
        c.__dict__.update(self.__dict__)
        c.mwait = list(self.mwait)
        c.jwait = list(self.jwait)
        c.loc = list(self.loc)
        c.sched = dict(self.sched)
        return c

    def done(self):
        return all(l == self.S for l in self.loc)

    def stage(self):
        return self.k // self.M

    def available(self):
        s = self.stage()
        return [j for j in range(self.J) if self.loc[j] == s and self.jwait[j] == 0]

    def actions(self):
        if self.done():
            return [self.J]
        s = self.stage()
        acts = list(self.available())
        earlier = any(l < s for l in self.loc)
        waiting_here = any(self.loc[j] == s and self.jwait[j] > 0 for j in range(self.J))
        if earlier or waiting_here:
            acts.append(self.J)
        return acts

    def _next_slot(self):
        while True:
            self.k += 1
            if self.k == self.MT:
                self.k = 0
                self.t += 1
                self.mwait = [max(0, w - 1) for w in self.mwait]
                self.jwait = [max(0, w - 1) for w in self.jwait]
            if self.mwait[self.k] == 0 and self.available():
                return

    def step(self, a):
        if self.done():
            return
        if a != self.J:
            m = self.k
            self.loc[a] += 1
            self.sched[(m, a)] = self.t
            self.mwait[m] = self.rt[a][m]
            self.jwait[a] = self.rt[a][m]
        if not self.done():
            self._next_slot()

    def makespan(self):
        return max(s + self.rt[j][m] for (m, j), s in self.sched.items()) if self.sched else 0


def simulate_ffsp(inst, actions, num_stage):
    sim = FFSPSim(inst, num_stage)
    for a in actions:
        sim.step(a)
    return sim


def enumerate_ffsp_class(inst, num_stage, limit=2_000_000):
    out = set()
    n = [0]

    def rec(sim):
        n[0] += 1
        if n[0] > limit:
            raise RuntimeError("enumeration limit")
        if sim.done():
            out.add(tuple(sorted((m, j, s) for (m, j), s in sim.sched.items())))
            return
        for a in sim.actions():
            c = sim.clone()
            c.step(a)
            rec(c)

    rec(FFSPSim(inst, num_stage))
    return out


# ------------------------------------------------------------------------------------------ SMTWTP


def smtwtp_check(inst, actions):
    n = len(inst["job_due_time"]) - 1
    probs = []
    if sorted(actions) != list(range(1, n + 1)):
        probs.append("not_a_permutation_of_all_jobs")
    if 0 in actions:
        probs.append("dummy_job_scheduled")
    return probs


def smtwtp_objective(inst, actions):
    t, tot = 0.0, 0.0
    for a in actions:
        t += inst["job_process_time"][a]
        tot += inst["job_weight"][a] * max(0.0, t - inst["job_due_time"][a])
    return -tot


def smtwtp_optimum(inst):
    n = len(inst["job_due_time"]) - 1
    return max(smtwtp_objective(inst, list(p)) for p in itertools.permutations(range(1, n + 1)))
