"""Independent ground-truth definitions (plain Python, no torch / rl4co import)."""
