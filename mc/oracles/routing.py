"""Ground-truth definitions of the routing problems (DESIGN.md Appendix A).

Plain Python over lists; no torch, no rl4co.  An *instance* is a dict of nested lists in the
generator format of the environment; a *solution* is the list of actions of one row up to and
including the step at which the row reports done.

check(kind, inst, actions, cfg) -> Verdict with
    .may   : feasible when every float constraint gets +TAU slack   (soundness side)
    .must  : feasible even when every float constraint loses TAU    (completeness side)
    .hard  : names of constraints violated beyond the band (=> not may)
    .band  : names of float constraints that sit inside the band
objective(kind, inst, actions, cfg) -> float   (the *reward*, i.e. sign as the library reports it)
enumerate_solutions(kind, inst, cfg) -> iterator over canonical candidate solutions
canon(kind, inst, actions, cfg) -> hashable canonical form (documented pruning removed)
"""
from __future__ import annotations

import itertools
import math

TAU = 1e-4


COMPLETENESS = {"missing", "length", "not_closed", "demand_unserved", "min_prize", "route_ends_carrying"}


class Verdict:
    __slots__ = ("may", "must", "hard", "band", "tau", "ignore")

    def __init__(self, tau=TAU, ignore=()):
        self.may = True
        self.must = True
        self.hard = []
        self.band = []
        self.tau = tau
        self.ignore = set(ignore)

    def fail(self, name):
        """structural / exact violation"""
        if name.split(":")[0] in self.ignore:
            return
        self.may = False
        self.must = False
        self.hard.append(name)

    def le(self, value, limit, name, exact=False, strict_ok=True):
        """constraint value <= limit"""
        if name in self.ignore:
            return
        if exact:
            if not value <= limit:
                self.fail(name)
            return
        if limit == math.inf:
            return
        if value > limit + self.tau:
            self.may = False
            self.must = False
            self.hard.append(name)
        elif value > limit - self.tau:
            self.must = False
            self.band.append(name)

    def ge(self, value, limit, name, exact=False):
        self.le(-value, -limit, name, exact)

    def __repr__(self):
        return f"Verdict(may={self.may}, must={self.must}, hard={self.hard}, band={self.band})"


def dist(a, b):
    return math.hypot(a[0] - b[0], a[1] - b[1])


def _nodes(inst):
    """depot-prefixed coordinate list for depot-based problems"""
    return [inst["depot"]] + list(inst["locs"])


def split_routes(actions, depot=0):
    """routes = maximal runs of non-depot nodes"""
    routes, cur = [], []
    for a in actions:
        if a == depot:
            if cur:
                routes.append(cur)
            cur = []
        else:
            cur.append(a)
    if cur:
        routes.append(cur)
    return routes


def _once(v: Verdict, visits, n, first=1, exactly=True):
    cnt = {}
    for a in visits:
        cnt[a] = cnt.get(a, 0) + 1
    for c in range(first, n + first):
        k = cnt.get(c, 0)
        if k > 1:
            v.fail(f"duplicate:{c}")
        if exactly and k == 0:
            v.fail(f"missing:{c}")
    for a in cnt:
        if not (first <= a < n + first):
            v.fail(f"out_of_range:{a}")


# ------------------------------------------------------------------------------------------
# feasibility
# ------------------------------------------------------------------------------------------


def check(kind, inst, actions, cfg=None) -> Verdict:
    cfg = cfg or {}
    exact = bool(inst.get("_exact", False))
    # partial=True judges an unfinished prefix: constraints that only a complete solution can meet are skipped
    v = Verdict(ignore=COMPLETENESS if cfg.get("partial") else ())
    actions = list(actions)
    f = globals().get("_check_" + kind.split(":")[0])
    if f is None:
        raise KeyError(kind)
    f(v, inst, actions, cfg, exact)
    return v


def _check_tsp(v, inst, actions, cfg, exact):
    n = len(inst["locs"])
    if len(actions) != n:
        v.fail("length")
    _once(v, actions, n, first=0)


def _check_atsp(v, inst, actions, cfg, exact):
    n = len(inst["cost_matrix"])
    if len(actions) != n:
        v.fail("length")
    _once(v, actions, n, first=0)


def _check_cvrp(v, inst, actions, cfg, exact):
    n = len(inst["locs"])
    Q = cfg.get("vehicle_capacity", 1.0)
    custs = [a for a in actions if a != 0]
    _once(v, custs, n)
    for r in split_routes(actions):
        load = sum(inst["demand"][c - 1] for c in r if 1 <= c <= n)
        v.le(load, Q, "capacity", exact=exact)


def _check_cvrptw(v, inst, actions, cfg, exact):
    _check_cvrp(v, inst, actions, cfg, exact)
    if not v.may:
        return
    nodes = _nodes(inst)
    tw = inst["time_windows"]
    dur = inst["durations"]
    t, cur = 0.0, 0
    seq = list(actions)
    if (not seq or seq[-1] != 0) and not cfg.get("partial"):
        seq = seq + [0]  # the vehicle finally returns to the depot
    for a in seq:
        arr = t + dist(nodes[cur], nodes[a])
        start = max(arr, tw[a][0])
        # instances whose coordinates, windows and durations are dyadic rationals with exactly representable distances
        # (`_exact_time`): float32 and the oracle agree bit for bit, so equality with a window end is decided exactly
        v.le(start, tw[a][1], "time_window" if a != 0 else "depot_deadline", exact=bool(inst.get("_exact_time")))
        t = start + dur[a]
        if a == 0:
            t = 0.0
        cur = a


def _check_sdvrp(v, inst, actions, cfg, exact):
    n = len(inst["locs"])
    Q = cfg.get("vehicle_capacity", 1.0)
    rem = [0.0] + list(inst["demand"])
    load = 0.0
    prev = None
    for a in actions:
        if not (0 <= a <= n):
            v.fail("out_of_range")
            return
        if a == 0:
            if prev == 0 and any(r > 0 for r in rem[1:]):
                v.fail("pointless_visit")  # documented: the depot is not visited twice in a row while demand is left
            load = 0.0
            prev = 0
            continue
        prev = a
        d = min(rem[a], Q - load)
        if d <= 0:
            if exact:
                v.fail("pointless_visit")  # a visit that cannot deliver anything
            else:
                # on non-lattice instances a load that fills the vehicle exactly in real arithmetic leaves a float32
                # residue of demand (or of capacity) behind: a visit delivering (next to) nothing is inside the band
                v.must = False
                v.band.append("residual_demand")
                d = 0.0
        rem[a] -= d
        load += d
        v.le(load, Q, "capacity", exact=True)
        if not exact and (abs(Q - load) <= v.tau or 0 < rem[a] <= v.tau):
            # the vehicle is filled (or a customer is served) exactly up to float rounding: whether float32 sees a
            # residue here is not decided by the problem definition -> inside the band
            v.must = False
            v.band.append("capacity_equality_float")
    if any(r > (0 if exact else 1e-6) for r in rem[1:]):
        v.fail("demand_unserved")


def _check_svrp(v, inst, actions, cfg, exact):
    n = len(inst["locs"])
    techs = [t[0] if isinstance(t, (list, tuple)) else t for t in inst["techs"]]
    skills = [s[0] if isinstance(s, (list, tuple)) else s for s in inst["skills"]]
    custs = [a for a in actions if a != 0]
    _once(v, custs, n)
    # route k (k-th departure from the depot, counting every depot visit) is driven by technician k
    k = 0
    for a in actions:
        if a == 0:
            k += 1
            continue
        if k >= len(techs):
            v.fail("too_many_routes")
            return
        if 1 <= a <= n:
            v.le(skills[a - 1], techs[k], "skill", exact=True)


def _strip_leading_depot(actions):
    """OP: the vehicle starts at the depot, so choosing the depot as very first action is a no-op"""
    a = list(actions)
    while len(a) > 1 and a[0] == 0:
        a = a[1:]
    return a


def _check_op(v, inst, actions, cfg, exact):
    n = len(inst["locs"])
    actions = _strip_leading_depot(actions)
    if not actions or actions[-1] != 0:
        v.fail("not_closed")
    custs = [a for a in actions if a != 0]
    if any(a == 0 for a in actions[:-1]):
        v.fail("depot_midway")
    _once(v, custs, n, exactly=False)
    nodes = _nodes(inst)
    L, cur = 0.0, 0
    for a in actions:
        if 0 <= a <= n:
            L += dist(nodes[cur], nodes[a])
            cur = a
    if cur != 0:
        L += dist(nodes[cur], nodes[0])
    v.le(L, inst["max_length"], "max_length")


def _prize(inst, cfg):
    return inst["stochastic_prize"] if cfg.get("stochastic", False) else inst["deterministic_prize"]


def _check_pctsp(v, inst, actions, cfg, exact):
    n = len(inst["locs"])
    if not actions or actions[-1] != 0:
        v.fail("not_closed")
    if any(a == 0 for a in actions[:-1]):
        v.fail("depot_midway")
    custs = [a for a in actions if a != 0]
    _once(v, custs, n, exactly=False)
    prize = _prize(inst, cfg)
    tot = sum(prize[c - 1] for c in set(custs) if 1 <= c <= n)
    if len(set(custs)) < n:
        v.ge(tot, 1.0, "min_prize", exact=exact)


_check_spctsp = _check_pctsp


def _check_pdp(v, inst, actions, cfg, exact):
    n = len(inst["locs"])
    seq = list(actions)
    if cfg.get("force_start_at_depot", False):
        if not seq or seq[0] != 0:
            v.fail("no_depot_start")
        seq = seq[1:]
    if len(seq) != n:
        v.fail("length")
    _once(v, seq, n)
    pos = {a: i for i, a in enumerate(seq)}
    half = n // 2
    for p in range(1, half + 1):
        if p in pos and p + half in pos and pos[p] > pos[p + half]:
            v.fail(f"delivery_before_pickup:{p}")


def _check_mtsp(v, inst, actions, cfg, exact):
    n = len(inst["locs"])  # node 0 is the depot
    m = int(inst["num_agents"])
    cities = [a for a in actions if a != 0]
    _once(v, cities, n - 1)
    if actions and actions[0] == 0:
        v.fail("depot_first")
    for x, y in zip(actions, actions[1:]):
        if x == 0 and y == 0:
            v.fail("empty_route")
    routes = split_routes(actions)
    if len(routes) > m:
        v.fail("too_many_agents")


def _check_mtvrp(v, inst, actions, cfg, exact):
    locs = inst["locs"]
    n = len(locs) - 1
    Q = inst["vehicle_capacity"]
    speed = inst.get("speed", 1.0)
    open_route = bool(inst["open_route"])
    L = inst["distance_limit"]
    tw = inst["time_windows"]
    st = inst["service_time"]
    lh, bh = inst["demand_linehaul"], inst["demand_backhaul"]
    custs = [a for a in actions if a != 0]
    _once(v, custs, n)
    if not v.may:
        return
    for r in split_routes(actions):
        v.le(sum(lh[c] for c in r), Q, "capacity_linehaul", exact=exact)
        v.le(sum(bh[c] for c in r), Q, "capacity_backhaul", exact=exact)
        seen_back = False
        for c in r:
            if bh[c] > 0:
                seen_back = True
            elif lh[c] > 0 and seen_back:
                v.fail("linehaul_after_backhaul")
        # route length and time windows
        length, t, cur = 0.0, 0.0, 0
        for c in r:
            d = dist(locs[cur], locs[c])
            length += d
            arr = t + d / speed
            start = max(arr, tw[c][0])
            v.le(start, tw[c][1], "time_window")
            t = start + st[c]
            cur = c
        if not open_route:
            d = dist(locs[cur], locs[0])
            length += d
            v.le(t + d / speed, tw[0][1], "depot_deadline")
        v.le(length, L, "distance_limit")


def _mdcpdp_caps(inst, D):
    c = inst["capacity"]
    if not isinstance(c, (list, tuple)):
        c = [c]
    c = [int(x) for x in c]
    return c if len(c) == D else [c[0]] * D


def _mdcpdp_layout(inst):
    D = len(inst["depot"])
    n = len(inst["locs"])
    return D, n, n // 2


def _check_mdcpdp(v, inst, actions, cfg, exact):
    """depots 0..D-1, pickups D..D+h-1, delivery of pickup p is p+h.
    Encoding: [d, customers..., d(back), d', customers..., d'(back), ...]; the final return is implicit."""
    D, n, h = _mdcpdp_layout(inst)
    caps = _mdcpdp_caps(inst, D)
    custs = [a for a in actions if a >= D]
    _once(v, custs, n, first=D)
    if not actions or actions[0] >= D:
        v.fail("no_depot_start")
        return
    used = set()
    i = 0
    T = len(actions)
    while i < T:
        d = actions[i]
        if d >= D:
            v.fail("route_without_depot")
            return
        if d in used:
            v.fail("depot_reused")
        used.add(d)
        i += 1
        carry = set()
        served = 0
        cap = caps[d]
        while i < T and actions[i] >= D:
            c = actions[i]
            if c < D + h:
                carry.add(c)
                if len(carry) > cap:
                    v.fail("carry_over_capacity")
            else:
                if (c - h) not in carry:
                    v.fail("delivery_without_pickup_in_route")
                carry.discard(c - h)
            served += 1
            i += 1
        if carry:
            v.fail("route_ends_carrying")
        if i < T:
            # explicit return to the same depot closes the route
            if actions[i] != d:
                v.fail("return_to_other_depot")
            i += 1


# ------------------------------------------------------------------------------------------
# objectives (returned with the sign of the library's reward)
# ------------------------------------------------------------------------------------------


def objective(kind, inst, actions, cfg=None) -> float:
    cfg = cfg or {}
    return globals()["_obj_" + kind.split(":")[0]](inst, list(actions), cfg)


def _closed(nodes, seq):
    if not seq:
        return 0.0
    return sum(dist(nodes[a], nodes[b]) for a, b in zip(seq, seq[1:] + seq[:1]))


def _obj_tsp(inst, actions, cfg):
    return -_closed(inst["locs"], actions)


def _obj_atsp(inst, actions, cfg):
    M = inst["cost_matrix"]
    return -sum(M[a][b] for a, b in zip(actions, actions[1:] + actions[:1]))


def _depot_tour(inst, actions):
    nodes = _nodes(inst)
    return _closed(nodes, [0] + list(actions))


def _obj_cvrp(inst, actions, cfg):
    return -_depot_tour(inst, actions)


_obj_cvrptw = _obj_cvrp
_obj_sdvrp = _obj_cvrp
_obj_pdp = _obj_cvrp


def _obj_svrp(inst, actions, cfg):
    nodes = _nodes(inst)
    costs = cfg.get("tech_costs", [1, 2, 3])
    tot, cur, k = 0.0, 0, 0
    for a in list(actions) + [0]:
        kk = min(k, len(costs) - 1)
        tot += costs[kk] * dist(nodes[cur], nodes[a])
        if a == 0:
            k += 1
        cur = a
    return -tot


def _obj_op(inst, actions, cfg):
    return sum(inst["prize"][c - 1] for c in set(actions) if c != 0)


def _obj_pctsp(inst, actions, cfg):
    n = len(inst["locs"])
    visited = set(a for a in actions if a != 0)
    length = _depot_tour(inst, [a for a in actions])
    pen = sum(inst["penalty"][c - 1] for c in range(1, n + 1) if c not in visited)
    return -(length + pen)


_obj_spctsp = _obj_pctsp


def _mtsp_route_lengths(inst, actions):
    locs = inst["locs"]
    return [_closed(locs, [0] + r) for r in split_routes(actions)]


def _obj_mtsp(inst, actions, cfg):
    ls = _mtsp_route_lengths(inst, actions)
    if cfg.get("cost_type", "minmax") == "minmax":
        return -max(ls) if ls else 0.0
    return -sum(ls)


def _obj_mtvrp(inst, actions, cfg):
    locs = inst["locs"]
    open_route = bool(inst["open_route"])
    tot = 0.0
    for r in split_routes(actions):
        seq = [0] + r
        tot += sum(dist(locs[a], locs[b]) for a, b in zip(seq, seq[1:]))
        if not open_route:
            tot += dist(locs[r[-1]], locs[0])
    return -tot


def _l1(a, b):
    return abs(a[0] - b[0]) + abs(a[1] - b[1])


def mdcpdp_routes(inst, actions):
    """[(depot, [customers...])] in visiting order"""
    D, n, h = _mdcpdp_layout(inst)
    routes = []
    i, T = 0, len(actions)
    while i < T:
        d = actions[i]
        i += 1
        r = []
        while i < T and actions[i] >= D:
            r.append(actions[i])
            i += 1
        if i < T and actions[i] == d:
            i += 1
        routes.append((d, r))
    return routes


def _obj_mdcpdp(inst, actions, cfg):
    D, n, h = _mdcpdp_layout(inst)
    nodes = list(inst["depot"]) + list(inst["locs"])
    dfun = _l1 if cfg.get("dist_mode", "L2") == "L1" else dist
    open_mode = cfg.get("problem_mode", "close") == "open"
    lengths = [0.0] * D
    arrive = {}
    for d, r in mdcpdp_routes(inst, actions):
        cur, L = d, lengths[d]
        for c in r:
            L += dfun(nodes[cur], nodes[c])
            arrive[c] = L
            cur = c
        if r and not open_mode:
            L += dfun(nodes[cur], nodes[d])
        lengths[d] = L
    mode = cfg.get("reward_mode", "lateness")
    if mode == "minmax":
        return -max(lengths)
    if mode == "minsum":
        return -sum(lengths)
    w = inst["lateness_weight"]
    w = w[0] if isinstance(w, (list, tuple)) else w
    late = sum(arrive.get(c, 0.0) for c in range(D + h, D + n))
    return -((1 - w) * sum(lengths) + w * late)


# ------------------------------------------------------------------------------------------
# canonical forms and brute-force enumeration (C05 / C06)
# ------------------------------------------------------------------------------------------


def canon(kind, inst, actions, cfg=None):
    """Remove the documented pruning / optional trailing depot so that solutions can be compared as sets."""
    k = kind.split(":")[0]
    a = list(actions)
    if k in ("tsp", "atsp", "pdp"):
        if k == "pdp" and (cfg or {}).get("force_start_at_depot", False) and a and a[0] == 0:
            a = a[1:]
        return tuple(a)
    if k in ("cvrp", "cvrptw", "sdvrp", "mtvrp", "mtsp"):
        return tuple(tuple(r) for r in split_routes(a))
    if k == "svrp":
        # technician index matters: keep empty routes in front (a depot visit consumes a technician)
        routes, cur = [], []
        for x in a:
            if x == 0:
                routes.append(tuple(cur))
                cur = []
            else:
                cur.append(x)
        if cur:
            routes.append(tuple(cur))
        while routes and not routes[-1]:
            routes.pop()
        return tuple(routes)
    if k in ("op", "pctsp", "spctsp"):
        out = []
        for x in a:
            if x == 0:
                break
            out.append(x)
        return tuple(out)
    if k == "mdcpdp":
        return tuple((d, tuple(r)) for d, r in mdcpdp_routes(inst, a))
    raise KeyError(kind)


def _splits(perm):
    """all ways of cutting a sequence into consecutive non-empty routes, as action lists with 0 separators"""
    n = len(perm)
    if n == 0:
        yield []
        return
    for cuts in itertools.product((0, 1), repeat=n - 1):
        out = [perm[0]]
        for c, x in zip(cuts, perm[1:]):
            if c:
                out.append(0)
            out.append(x)
        yield out


def enumerate_solutions(kind, inst, cfg=None):
    """Candidate solutions (action lists, canonical encodings); feasibility is decided by check()."""
    cfg = cfg or {}
    k = kind.split(":")[0]
    if k == "tsp":
        n = len(inst["locs"])
        yield from (list(p) for p in itertools.permutations(range(n)))
    elif k == "atsp":
        n = len(inst["cost_matrix"])
        yield from (list(p) for p in itertools.permutations(range(n)))
    elif k == "pdp":
        n = len(inst["locs"])
        pre = [0] if cfg.get("force_start_at_depot", False) else []
        yield from (pre + list(p) for p in itertools.permutations(range(1, n + 1)))
    elif k in ("cvrp", "cvrptw", "mtvrp"):
        n = len(inst["locs"]) - (1 if k == "mtvrp" else 0)
        for p in itertools.permutations(range(1, n + 1)):
            yield from _splits(list(p))
    elif k == "mtsp":
        n = len(inst["locs"]) - 1
        for p in itertools.permutations(range(1, n + 1)):
            yield from _splits(list(p))
    elif k == "svrp":
        n = len(inst["locs"])
        T = len(inst["techs"])
        # a solution assigns consecutive routes to technicians 0..T-1; technicians may be skipped by an
        # immediate return only if the library documents it: it does not (depot is masked at the depot),
        # so routes are non-empty and at most T.
        for p in itertools.permutations(range(1, n + 1)):
            for s in _splits(list(p)):
                if s.count(0) + 1 <= T:
                    yield s
    elif k in ("op", "pctsp", "spctsp"):
        n = len(inst["locs"])
        for r in range(0, n + 1):
            for sub in itertools.permutations(range(1, n + 1), r):
                yield list(sub) + [0]
    elif k == "sdvrp":
        yield from _enumerate_sdvrp(inst, cfg)
    elif k == "mdcpdp":
        yield from _enumerate_mdcpdp(inst, cfg)
    else:
        raise KeyError(kind)


def _enumerate_sdvrp(inst, cfg):
    """DFS over the textual definition: a visit delivers min(remaining demand, remaining load) > 0;
    the depot is only visited from a customer (documented pruning)."""
    n = len(inst["locs"])
    Q = cfg.get("vehicle_capacity", 1.0)
    out = []

    def rec(seq, rem, load, cur):
        if all(r <= 0 for r in rem[1:]):
            out.append(list(seq))
            return
        if len(seq) > 4 * n + 4:
            raise RuntimeError("sdvrp enumeration runaway")
        for c in range(1, n + 1):
            if rem[c] > 0 and load < Q:
                d = min(rem[c], Q - load)
                rem2 = list(rem)
                rem2[c] -= d
                rec(seq + [c], rem2, load + d, c)
        if cur != 0:
            rec(seq + [0], rem, 0.0, 0)

    rec([], [0.0] + list(inst["demand"]), 0.0, 0)
    return out


def _enumerate_mdcpdp(inst, cfg):
    """All ordered route plans: depots used in the library's documented order is NOT assumed; any
    sequence of distinct depots, starting with depot 0 (start_mode='order' fixes the first vehicle)."""
    D, n, h = _mdcpdp_layout(inst)
    caps = _mdcpdp_caps(inst, D)
    out = []

    def route_orders(avail_pick, cap):
        """all non-empty feasible single-route sequences using pickups from avail_pick (with their deliveries)"""
        res = []

        def rec(seq, carry, left):
            if seq and not carry:
                res.append((list(seq), frozenset(left)))
            for p in sorted(left):
                if len(carry) < cap:
                    rec(seq + [p], carry | {p}, left - {p})
            for p in sorted(carry):
                rec(seq + [p + h], carry - {p}, left)

        rec([], frozenset(), frozenset(avail_pick))
        return res

    def plan(seq, depots_left, picks_left, first):
        if not picks_left:
            out.append(list(seq))
            return
        cand = [0] if first else sorted(depots_left)
        for d in cand:
            if d not in depots_left:
                continue
            for r, left in route_orders(picks_left, caps[d]):
                if left and len(depots_left) == 1:
                    continue  # the last vehicle has to finish everything
                new = seq + [d] + r
                if left:
                    plan(new + [d], depots_left - {d}, left, False)
                else:
                    out.append(new)

    plan([], frozenset(range(D)), frozenset(range(D, D + h)), True)
    return out
