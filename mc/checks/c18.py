"""C18 — generators emit well-formed, solvable instances within documented bounds.

E3 (RNG seam) x configuration grid x E1 (environment explorer).  For every generator (tsp, atsp, cvrp [+sdvrp],
cvrptw, op, pctsp [+spctsp], pdp, mtsp, svrp, mdcpdp, mtvrp, fjsp, jssp, ffsp, smtwtp, flp, mcp) and every
configuration of its grid (sizes incl. off-table sizes, batch sizes as int and as list, documented
distributions, capacity overrides, scaled / unscaled CVRPTW, all MTVRP presets, scheduling shapes, quotas)
`generator(batch_size)` is executed under the seam for the all-default answers and for every execution with
<= max_dev deviations from them (answer patterns of seam.py: seeded / all-low / all-high / ramps / alternating,
all permutations of a small randperm, every category of a multinomial ...).

Every execution is judged:
  * an exception inside the generator (constructor or _generate) of a documented-valid configuration is a
    violation (observable crash:<Exc>);
  * documented keys / shapes / dtypes / ranges (one oracle per generator, written from the class docstring and
    the argument documentation, see judge_*);
  * solvability: instances of size <= 5 (all executions for size <= 4, the default and the single all-low /
    all-high deviations for size 5) are explored exhaustively by E1 on the matching environment: no dead end,
    every path terminates inside the step cap; larger instances run the two extreme deterministic schedules
    (always-first / always-last feasible action) under a step cap and the environment's own
    check_solution_validity where it has one.  An exception raised by env.reset / env.step on a generated
    instance is reported as env_crash:<Exc>.

Reporting rules
  * a finding is attributed to the smallest set of deviation patterns under which it was seen (what already
    happens on the default draw is not reported again under deviations);
  * the constant / alternating answer patterns of a *coordinate* draw make all locations of an instance
    coincide (a probability-zero instance: divisions by the distance to the depot / by the spread of the points
    give NaN).  Findings on such pattern-made instances are recorded as informational 'degenerate' notes and
    counted in `degenerate_findings`, not reported as violations; the same finding on the default draw of a
    configuration (e.g. loc_distribution='center') IS a violation;
  * docstrings that are stale with respect to the emitted format (see DOC_NOTES) are informational.
"""
from __future__ import annotations

import math
import os
import random

import numpy as np
import torch

from .. import explore as E
from ..core import Partial, Report, jhash, pmap, quiet, seed_from_env
from ..seam import ExplorationCapped, ReplayDivergence, Seam, n_deviations

quiet()

from rl4co.envs import (  # noqa: E402
    ATSPEnv,
    CVRPEnv,
    CVRPTWEnv,
    FFSPEnv,
    FJSPEnv,
    FLPEnv,
    JSSPEnv,
    MCPEnv,
    MDCPDPEnv,
    MTSPEnv,
    MTVRPEnv,
    OPEnv,
    PCTSPEnv,
    PDPEnv,
    SDVRPEnv,
    SMTWTPEnv,
    SPCTSPEnv,
    SVRPEnv,
    TSPEnv,
)
from rl4co.envs.common import distribution_utils as DU  # noqa: E402
from rl4co.envs.graph.flp.generator import FLPGenerator  # noqa: E402
from rl4co.envs.eda.dpp.generator import DPPGenerator  # noqa: E402
from rl4co.envs.eda.mdpp.generator import MDPPGenerator  # noqa: E402
from rl4co.envs.eda.dpp.env import DPPEnv  # noqa: E402
from rl4co.envs.eda.mdpp.env import MDPPEnv  # noqa: E402
from rl4co.envs.graph.mcp.generator import MCPGenerator  # noqa: E402
from rl4co.envs.routing.atsp.generator import ATSPGenerator  # noqa: E402
from rl4co.envs.routing.cvrp.generator import CAPACITIES, CVRPGenerator  # noqa: E402
from rl4co.envs.routing.cvrptw.generator import CVRPTWGenerator  # noqa: E402
from rl4co.envs.routing.mdcpdp.generator import MDCPDPGenerator  # noqa: E402
from rl4co.envs.routing.mtsp.generator import MTSPGenerator  # noqa: E402
from rl4co.envs.routing.mtvrp.generator import VARIANT_GENERATION_PRESETS, MTVRPGenerator  # noqa: E402
from rl4co.envs.routing.op.generator import MAX_LENGTHS as OP_MAX_LENGTHS  # noqa: E402
from rl4co.envs.routing.op.generator import OPGenerator  # noqa: E402
from rl4co.envs.routing.pctsp.generator import MAX_LENGTHS as PCTSP_MAX_LENGTHS  # noqa: E402
from rl4co.envs.routing.pctsp.generator import PCTSPGenerator  # noqa: E402
from rl4co.envs.routing.pdp.generator import PDPGenerator  # noqa: E402
from rl4co.envs.routing.svrp.generator import SVRPGenerator  # noqa: E402
from rl4co.envs.routing.tsp.generator import TSPGenerator  # noqa: E402
from rl4co.envs.scheduling.ffsp.generator import FFSPGenerator  # noqa: E402
from rl4co.envs.scheduling.fjsp.generator import FJSPGenerator  # noqa: E402
from rl4co.envs.scheduling.jssp.generator import JSSPGenerator  # noqa: E402
from rl4co.envs.scheduling.smtwtp.generator import SMTWTPGenerator  # noqa: E402

PID = "C18"
INF = float("inf")
MAX_STATES = 150_000

# ===================================================================================================
# seam: robust randint argument parsing + the stateless explorer over it
# ===================================================================================================


class Seam18(Seam):
    """seam.py's randint wrapper reads kw['high'] whenever `size` is passed by keyword, so the spellings
    torch.randint(low, high, size=...) (MTSP, MDCPDP, FJSP, JSSP generators) and torch.randint(high, size=...)
    (FJSP) raise KeyError inside the harness; its multinomial wrapper does not accept the keyword spelling
    torch.multinomial(input=...) (distribution_utils.Gaussian_Mixture).  The arguments are normalised here and
    handed to the unchanged answer logic."""

    def multinomial(self, *args, **kw):
        if "input" in kw:  # Gaussian_Mixture spells torch.multinomial(input=..., num_samples=..., replacement=...)
            args = (kw.pop("input"),) + tuple(args)
        return super().multinomial(*args, **kw)

    def randint(self, *args, **kw):
        a = list(args)
        size = kw.pop("size", None)
        low = kw.pop("low", None)
        high = kw.pop("high", None)
        if size is None:
            size = a.pop()
        if len(a) == 2:
            low, high = a
        elif len(a) == 1:
            if high is None:
                high = a[0]
            else:
                low = a[0]
        if low is None:
            low = 0
        return super().randint(int(low), int(high), tuple(size), **kw)


def explore18(run, max_dev=None, limit=200_000, seed=0):
    """seam.explore with Seam18 (same order, same deviation bound)."""
    stack = [[]]
    n = 0
    while stack:
        prefix = stack.pop()
        seam = Seam18(prefix, seed=seed)
        res = run(seam)
        n += 1
        if n > limit:
            raise ExplorationCapped(n)
        ch = seam.choices()
        if ch[: len(prefix)] != prefix:
            raise ReplayDivergence(f"prefix {prefix} replayed as {ch[:len(prefix)]}")
        yield ch, res, seam
        base_dev = n_deviations(ch[: len(prefix)])
        for i in range(len(ch) - 1, len(prefix) - 1, -1):
            dev_before = base_dev + n_deviations(ch[len(prefix) : i])
            if max_dev is not None and dev_before + 1 > max_dev:
                continue
            for alt in range(seam.points[i][1] - 1, 0, -1):
                stack.append(ch[:i] + [alt])


_DEV_NAMES = {
    "rand": {1: "all_low", 2: "all_high", 3: "ramp", 4: "ramp", 5: "alternating"},
    "randint": {1: "all_low", 2: "all_high", 3: "ramp"},
    "normal": {1: "mean", 2: "all_high", 3: "all_low"},
}


def trigger_of(points):
    names = set()
    for kind, _, c in points:
        if c == 0:
            continue
        if kind in _DEV_NAMES:
            names.add(_DEV_NAMES[kind].get(c, "other"))
        elif kind == "randperm":
            names.add("permutation")
        elif kind.startswith("multinomial"):
            names.add("category")
        else:
            names.add("other")
    return "+".join(sorted(names)) if names else "default_draw"


# ===================================================================================================
# judging helpers
# ===================================================================================================


class Judge:
    def __init__(self):
        self.bad = []  # (observable, message)
        self.notes = []

    def v(self, obs, msg):
        if len(self.bad) < 12:
            self.bad.append((obs, msg))

    def n(self, msg):
        if len(self.notes) < 6:
            self.notes.append(msg)


def _keys(j, td, want):
    got = sorted(k for k in td.keys())
    if got != sorted(want):
        j.v("keys", f"keys {got} differ from the documented {sorted(want)}")
        return False
    return True


def _shape(j, td, key, want):
    got = tuple(td[key].shape)
    if got != tuple(want):
        j.v("shape", f"{key} has shape {got}, documented {tuple(want)}")
        return False
    return True


def _dtype(j, td, key, want):
    if td[key].dtype != want:
        j.v("dtype", f"{key} has dtype {td[key].dtype}, expected {want}")
        return False
    return True


def _finite(j, t, field):
    if not bool(torch.isfinite(t.double()).all()):
        j.v(f"range:{field}", f"{field} contains non-finite values")
        return False
    return True


def _range(j, t, lo, hi, field, tol=1e-6, strict=True, what=""):
    if t.numel() == 0:
        return True
    if not _finite(j, t, field):
        return False
    mn, mx = float(t.min()), float(t.max())
    if mn < lo - tol or mx > hi + tol:
        msg = f"{field} spans [{mn:.6g}, {mx:.6g}], documented range [{lo:.6g}, {hi:.6g}]{what}"
        if strict:
            j.v(f"range:{field}", msg)
        else:
            j.n(f"{field}: a normal / gaussian sampler draws values outside [min, max] (informational: the distribution is unbounded and no clamping is documented)")
        return False
    return True


def _integral(j, t, field, tol=1e-3):
    if t.numel() and float((t - t.round()).abs().max()) > tol:
        j.v(f"range:{field}", f"{field} is not integer-valued (max deviation {float((t - t.round()).abs().max()):.4g})")
        return False
    return True


BOUNDED01 = {"cluster", "mixed", "gaussian_mixture", "mix_distribution", "mix_multi_distributions", "cls:Cluster", "cls:Mixed", "cls:Gaussian_Mixture", "cls:Mix_Distribution", "cls:Mix_Multi_Distributions"}
UNBOUNDED = {"normal", "gaussian", "cls:Normal"}


def coord_bounds(cfg, key="loc_distribution", max_default=1.0):
    """(lo, hi, strict): the documented range of sampled coordinates.  distribution_utils samplers document
    'confine / scale the coordinates to [0, 1]' and ignore min_loc / max_loc; a normal sampler is unbounded."""
    dist = cfg.get(key) or cfg.get("loc_distribution") or "uniform"
    lo, hi = float(cfg.get("min_loc", 0.0)), float(cfg.get("max_loc", max_default))
    if isinstance(dist, (int, float)):
        return lo, hi, True
    if dist in BOUNDED01:
        return 0.0, 1.0, True
    if dist in UNBOUNDED:
        return lo, hi, False
    return lo, hi, True


def closest_table(table, n):
    if n in table:
        return table[n]
    return table[min(table.keys(), key=lambda x: abs(x - n))]


def _coords(j, td, key, shape, cfg, dist_key="loc_distribution", max_default=1.0, scale=1.0):
    ok = _shape(j, td, key, shape)
    _dtype(j, td, key, torch.float32)
    lo, hi, strict = coord_bounds(cfg, dist_key, max_default)
    _range(j, td[key], lo / scale, hi / scale, key, tol=1e-6 * max(1.0, abs(hi)), strict=strict)
    return ok


# ---------------------------------------------------------------------------------------- routing


def judge_tsp(j, td, cfg, B):
    if not _keys(j, td, ["locs"]):
        return
    _coords(j, td, "locs", (B, cfg["num_loc"], 2), cfg)


def judge_atsp(j, td, cfg, B):
    n = cfg["num_loc"]
    if not _keys(j, td, ["cost_matrix"]):
        return
    if not _shape(j, td, "cost_matrix", (B, n, n)):
        return
    _dtype(j, td, "cost_matrix", torch.float32)
    M = td["cost_matrix"].double()
    if not _finite(j, M, "cost_matrix"):
        return
    lo, hi = float(cfg.get("min_dist", 0.0)), float(cfg.get("max_dist", 1.0))
    eye = torch.eye(n, dtype=torch.bool)
    if float(M[:, eye].abs().max()) > 0:
        j.v("range:cost_matrix", "diagonal of the distance matrix is not zero")
    off = M[:, ~eye]
    _range(j, off, lo, hi, "cost_matrix")
    if cfg.get("tmat_class", True):
        # M[i,j] <= M[i,k] + M[k,j]
        via = (M[:, :, :, None] + M[:, None, :, :]).min(dim=2).values  # min_k M[i,k]+M[k,j]
        gap = float((M - via).max())
        if gap > 1e-6:
            j.v("triangle", f"triangle inequality violated by {gap:.3g} although tmat_class=True")


def _cvrp_capacity(cfg):
    return float(cfg["capacity"]) if cfg.get("capacity") is not None else float(closest_table(CAPACITIES, cfg["num_loc"]))


def judge_cvrp(j, td, cfg, B, extra=(), max_default=1.0, scale=1.0):
    n = cfg["num_loc"]
    if not _keys(j, td, ["locs", "depot", "demand", "capacity", *extra]):
        return False
    _coords(j, td, "locs", (B, n, 2), cfg, max_default=max_default, scale=scale)
    _coords(j, td, "depot", (B, 2), cfg, dist_key="depot_distribution", max_default=max_default, scale=scale)
    ok = _shape(j, td, "demand", (B, n))
    if tuple(td["capacity"].shape) not in ((B,), (B, 1)):
        j.v("shape", f"capacity has shape {tuple(td['capacity'].shape)}, documented [batch_size] / [batch_size, 1]")
    cap = _cvrp_capacity(cfg)
    if float((td["capacity"].double() - cap).abs().max()) > 1e-6:
        j.v("range:capacity", f"capacity {td['capacity'].flatten().tolist()} differs from the documented value {cap}")
    if ok and _finite(j, td["demand"], "demand"):
        raw = td["demand"].double() * cap
        _integral(j, raw, "demand")
        _range(j, raw.round(), cfg.get("min_demand", 1), cfg.get("max_demand", 10), "demand", what=" (demand x capacity)")
        if float(td["demand"].max()) > float(cfg.get("vehicle_capacity", 1.0)) + 1e-6:
            j.v("range:demand", f"a demand of {float(td['demand'].max()):.4g} exceeds the vehicle capacity 1.0")
    return True


def judge_cvrptw(j, td, cfg, B):
    n = cfg["num_loc"]
    T = float(cfg.get("max_time", 480))
    scale = bool(cfg.get("scale", False))
    sc = T if scale else 1.0
    if not judge_cvrp(j, td, cfg, B, extra=("durations", "time_windows"), max_default=150.0, scale=sc):
        return
    if not (_shape(j, td, "durations", (B, n + 1)) and _shape(j, td, "time_windows", (B, n + 1, 2))):
        return
    tw = td["time_windows"].double() * sc
    du = td["durations"].double() * sc
    if not (_finite(j, tw, "time_windows") and _finite(j, du, "durations")):
        return
    d = (td["locs"].double() - td["depot"].double()[:, None, :]).norm(dim=-1) * sc
    tol = 1e-4 * max(1.0, T)
    if float(tw[:, 0, 0].abs().max()) > tol or float((tw[:, 0, 1] - T).abs().max()) > tol:
        j.v("time_window", f"depot window {(tw[:, 0] / sc).tolist()} is not [0, max_time]")
    if float(du[:, 0].abs().max()) > 0 or float(du.min()) < 0:
        j.v("range:durations", "negative service duration / non-zero duration at the depot")
    e, l, s = tw[:, 1:, 0], tw[:, 1:, 1], du[:, 1:]
    if not bool((e < l).all()):
        j.v("time_window", f"a time window is not ordered (start >= end): {int((e >= l).sum())} customers")
    # starts are truncated to integers by design: start >= floor(distance); the window must still be open on arrival
    if not bool((e >= d.floor() - tol).all()):
        j.v("time_window", f"a window opens before the customer can be reached from the depot (by {float((d.floor() - e).max()):.4g})")
    if not bool((l >= d - tol).all()):
        j.v("time_window", f"a window closes before the customer can be reached from the depot (by {float((d - l).max()):.4g})")
    if not bool((l + s + d <= T + tol).all()):
        j.v("time_window", f"a window leaves no time to return to the depot (by {float((l + s + d - T).max()):.4g})")


def judge_op(j, td, cfg, B):
    n = cfg["num_loc"]
    if not _keys(j, td, ["locs", "depot", "prize", "max_length"]):
        return
    _coords(j, td, "locs", (B, n, 2), cfg)
    _coords(j, td, "depot", (B, 2), cfg, dist_key="depot_distribution")
    if _shape(j, td, "prize", (B, n)) and _finite(j, td["prize"], "prize"):
        pr = td["prize"].double()
        if float(pr.min()) <= 0 or float(pr.max()) > 1 + 1e-6:
            j.v("range:prize", f"prize spans [{float(pr.min()):.4g}, {float(pr.max()):.4g}], documented (0, 1]")
        elif cfg.get("prize_type", "dist") == "const" and float((pr - 1).abs().max()) > 0:
            j.v("range:prize", "prize_type='const' but prizes differ from 1")
    if tuple(td["max_length"].shape) not in ((B,), (B, 1)):
        j.v("shape", f"max_length has shape {tuple(td['max_length'].shape)}")
    ml = float(cfg["max_length"]) if cfg.get("max_length") is not None else float(closest_table(OP_MAX_LENGTHS, n))
    if float((td["max_length"].double() - ml).abs().max()) > 1e-6 or ml <= 0:
        j.v("range:max_length", f"max_length {td['max_length'].flatten().tolist()} differs from the documented {ml}")


def judge_pctsp(j, td, cfg, B):
    n = cfg["num_loc"]
    if not _keys(j, td, ["locs", "depot", "penalty", "deterministic_prize", "stochastic_prize"]):
        return
    _coords(j, td, "locs", (B, n, 2), cfg)
    _coords(j, td, "depot", (B, 2), cfg, dist_key="depot_distribution")
    maxpen = float(cfg["max_penalty"]) if cfg.get("max_penalty") is not None else float(closest_table(PCTSP_MAX_LENGTHS, n))
    maxpen *= float(cfg.get("penalty_factor", 3.0)) / n
    for k in ("penalty", "deterministic_prize", "stochastic_prize"):
        _shape(j, td, k, (B, n))
    if any(o == "shape" for o, _ in j.bad):
        return
    _range(j, td["penalty"], 0.0, maxpen, "penalty")
    _range(j, td["deterministic_prize"], 0.0, 4.0 / n, "deterministic_prize")
    if _finite(j, td["stochastic_prize"], "stochastic_prize"):
        sp, dp = td["stochastic_prize"].double(), td["deterministic_prize"].double()
        if float(sp.min()) < 0 or bool((sp > 2 * dp + 1e-6).any()):
            j.v("range:stochastic_prize", "stochastic prize outside [0, 2 x expected prize]")


def _even(n):
    return n + (n % 2)


def judge_pdp(j, td, cfg, B):
    n = _even(cfg["num_loc"])
    if not _keys(j, td, ["locs", "depot"]):
        return
    if td["locs"].shape[1] % 2 != 0:
        j.v("shape", f"{td['locs'].shape[1]} customer locations: pickups and deliveries cannot be paired")
    _coords(j, td, "locs", (B, n, 2), cfg)
    _coords(j, td, "depot", (B, 2), cfg, dist_key="depot_distribution")


def judge_mtsp(j, td, cfg, B):
    if not _keys(j, td, ["locs", "num_agents"]):
        return
    _coords(j, td, "locs", (B, cfg["num_loc"], 2), cfg)
    if _shape(j, td, "num_agents", (B,)):
        _dtype(j, td, "num_agents", torch.int64)
        _range(j, td["num_agents"], cfg.get("min_num_agents", 5), cfg.get("max_num_agents", 5), "num_agents", tol=0)


def judge_svrp(j, td, cfg, B):
    n = cfg["num_loc"]
    T = len(cfg.get("tech_costs", [1, 2, 3]))
    if not _keys(j, td, ["locs", "depot", "techs", "skills"]):
        return
    _coords(j, td, "locs", (B, n, 2), cfg)
    _coords(j, td, "depot", (B, 2), cfg, dist_key="depot_distribution")
    if tuple(td["techs"].shape) not in ((B, T, 1), (B, T)) or tuple(td["skills"].shape) not in ((B, n, 1), (B, n)):
        j.v("shape", f"techs {tuple(td['techs'].shape)} / skills {tuple(td['skills'].shape)} for {T} technicians and {n} customers")
        return
    te, sk = td["techs"].double().reshape(B, T), td["skills"].double().reshape(B, n)
    if not (_finite(j, te, "techs") and _finite(j, sk, "skills")):
        return
    _range(j, te, cfg.get("min_skill", 1.0), cfg.get("max_skill", 10.0), "techs")
    if T > 1 and not bool((te[:, 1:] >= te[:, :-1]).all()):
        j.v("range:techs", "technician skill levels are not sorted ascending")
    if float(sk.min()) < 0 or bool((sk > te.max(dim=1, keepdim=True).values + 1e-6).any()):
        j.v("range:skills", "a customer requires a skill above the best technician (or a negative one)")


def judge_mdcpdp(j, td, cfg, B):
    n = _even(cfg["num_loc"])
    D = cfg.get("num_depot", 5)
    if not _keys(j, td, ["locs", "depot", "capacity", "lateness_weight"]):
        return
    if td["locs"].shape[1] % 2 != 0:
        j.v("shape", f"{td['locs'].shape[1]} customer locations: pickups and deliveries cannot be paired")
    _coords(j, td, "locs", (B, n, 2), cfg)
    if _coords(j, td, "depot", (B, D, 2), cfg, dist_key="depot_distribution"):
        if cfg.get("depot_mode", "multiple") == "single" and float((td["depot"] - td["depot"][:, :1]).abs().max()) > 0:
            j.v("range:depot", "depot_mode='single' but the depots are at different locations")
    if _shape(j, td, "capacity", (B, 1)):
        if td["capacity"].dtype not in (torch.int64, torch.int32):
            j.v("dtype", f"capacity has dtype {td['capacity'].dtype}, documented as an integer number of orders")
        _range(j, td["capacity"], cfg.get("min_capacity", 1), cfg.get("max_capacity", 5), "capacity", tol=0)
    if _shape(j, td, "lateness_weight", (B, 1)):
        _range(j, td["lateness_weight"], cfg.get("min_lateness_weight", 1.0), cfg.get("max_lateness_weight", 1.0), "lateness_weight")


def mtvrp_capacity(cfg):
    """documented: 30 + num_loc/5 if num_loc > 20 (Liu et al. 2024), +1 per 33.3 nodes over 1000"""
    if cfg.get("capacity") is not None:
        return float(cfg["capacity"])
    n = cfg["num_loc"]
    if n > 1000:
        return 30.0 + 1000 // 5 + (n - 1000) // 33.3
    return 30.0 + (n // 5 if n > 20 else 0)


MTVRP_KEYS = ["locs", "demand_backhaul", "demand_linehaul", "distance_limit", "time_windows", "service_time", "vehicle_capacity", "capacity_original", "open_route", "speed"]
_FEATS = ("O", "TW", "L", "B")


def judge_mtvrp(j, td, cfg, B):
    n = cfg["num_loc"]
    preset = cfg.get("variant_preset")
    T, L, speed = float(cfg.get("max_time", 4.6)), float(cfg.get("distance_limit", 3.0)), float(cfg.get("speed", 1.0))
    if not _keys(j, td, MTVRP_KEYS):
        return
    shapes = dict(locs=(B, n + 1, 2), demand_backhaul=(B, n + 1), demand_linehaul=(B, n + 1), distance_limit=(B, 1), time_windows=(B, n + 1, 2), service_time=(B, n + 1), vehicle_capacity=(B, 1), capacity_original=(B, 1), open_route=(B, 1), speed=(B, 1))
    if not all([_shape(j, td, k, s) for k, s in shapes.items()]):
        return
    _dtype(j, td, "open_route", torch.bool)
    _coords(j, td, "locs", (B, n + 1, 2), dict(cfg, loc_distribution="uniform"))
    cap = mtvrp_capacity(cfg)
    if float((td["capacity_original"].double() - cap).abs().max()) > 1e-6:
        j.v("range:capacity_original", f"capacity_original {td['capacity_original'].flatten().tolist()} differs from the documented {cap}")
    scaled = cfg.get("scale_demand", True)
    vc = td["vehicle_capacity"].double()
    if float((vc - (1.0 if scaled else cap)).abs().max()) > 1e-6:
        j.v("range:vehicle_capacity", f"vehicle_capacity {vc.flatten().tolist()}")
    if float((td["speed"].double() - speed).abs().max()) > 1e-6:
        j.v("range:speed", "speed differs from the configured constant")
    lh, bh = td["demand_linehaul"].double(), td["demand_backhaul"].double()
    if not (_finite(j, lh, "demand_linehaul") and _finite(j, bh, "demand_backhaul")):
        return
    if float(lh[:, 0].abs().max()) > 0 or float(bh[:, 0].abs().max()) > 0:
        j.v("range:demand_linehaul", "the depot has a demand")
    if float(lh.min()) < 0 or float(bh.min()) < 0:
        j.v("range:demand_linehaul", "negative demand")
    both = (lh[:, 1:] > 0) & (bh[:, 1:] > 0)
    none = (lh[:, 1:] <= 0) & (bh[:, 1:] <= 0)
    if bool(both.any()) or bool(none.any()):
        j.v("range:demand_backhaul", f"{int(both.sum())} customers are linehaul and backhaul at once, {int(none.sum())} have no demand at all")
    if bool((lh > vc + 1e-6).any()) or bool((bh > vc + 1e-6).any()):
        j.v("range:demand_linehaul", "a demand exceeds the vehicle capacity")
    mul = cap if scaled else 1.0
    lo = min(cfg.get("min_demand", 1), cfg.get("min_backhaul", 1))
    hi = max(cfg.get("max_demand", 10), cfg.get("max_backhaul", 10))
    for name, t, a, b in (("demand_linehaul", lh, lo, hi), ("demand_backhaul", bh, cfg.get("min_backhaul", 1), cfg.get("max_backhaul", 10))):
        raw = (t[:, 1:] * mul)[t[:, 1:] > 0]
        if raw.numel():
            _integral(j, raw, name)
            _range(j, raw.round(), a, b, name, what=" (demand x capacity)")
    tw, st = td["time_windows"].double(), td["service_time"].double()
    dl = td["distance_limit"].double().reshape(B)
    d0 = (td["locs"].double()[:, 1:] - td["locs"].double()[:, :1]).norm(dim=-1)
    probs = None
    if preset is not None:
        probs = VARIANT_GENERATION_PRESETS[preset]
    for r in range(B):
        e, l = tw[r, 1:, 0], tw[r, 1:, 1]
        has_tw = bool(torch.isfinite(l).all()) and not bool(torch.isnan(e).any())
        no_tw = bool((l == INF).all()) and bool((e == 0).all())
        if bool(torch.isnan(tw[r]).any()) or not (has_tw or no_tw):
            j.v("time_window", f"row {r}: time windows are neither all finite nor all [0, inf) (NaN: {bool(torch.isnan(tw[r]).any())})")
            continue
        feats = dict(O=bool(td["open_route"][r].item()), TW=has_tw, L=bool(torch.isfinite(dl[r])), B=bool((bh[r] > 0).any()))
        if float(tw[r, 0, 0]) != 0 or (has_tw and abs(float(tw[r, 0, 1]) - T) > 1e-6) or (no_tw and float(tw[r, 0, 1]) != INF):
            j.v("time_window", f"row {r}: depot window {tw[r, 0].tolist()}")
        if has_tw:
            tol = 1e-4 * max(1.0, T)
            if not bool((e < l).all()):
                j.v("time_window", f"row {r}: a time window is not ordered")
            if not bool((e >= d0[r] / speed - tol).all()):
                j.v("time_window", f"row {r}: a window opens before the customer can be reached (by {float((d0[r] / speed - e).max()):.4g})")
            if not bool((l + st[r, 1:] + d0[r] / speed <= T + tol).all()):
                j.v("time_window", f"row {r}: a window leaves no time to return to the depot (by {float((l + st[r, 1:] + d0[r] / speed - T).max()):.4g})")
            if float(st[r].min()) < 0 or float(st[r, 0]) != 0:
                j.v("range:service_time", f"row {r}: negative service time / service time at the depot")
        if feats["L"]:
            if abs(float(dl[r]) - L) > 1e-6:
                j.v("range:distance_limit", f"row {r}: distance limit {float(dl[r])} differs from the configured {L}")
            if not bool((2 * d0[r] < float(dl[r])).all()):
                j.v("range:distance_limit", f"row {r}: a customer cannot be served within the distance limit")
        elif float(dl[r]) != INF:
            j.v("range:distance_limit", f"row {r}: distance limit {float(dl[r])}")
        # features <-> preset
        if preset is None:  # subsample=False: 'we always sample all attributes (i.e., OVRPBLTW)'
            want = dict(O=True, TW=True, L=True)
            wrong = [k for k, v in want.items() if feats[k] != v]
            if wrong:
                j.v("preset", f"row {r}: subsample=False but features {wrong} are missing (features {feats})")
        elif preset == "all":
            pass
        elif preset in ("single_feat", "single_feat_otw"):
            on = [k for k in _FEATS if feats[k]]
            if len(on) > 1 and not (preset == "single_feat_otw" and sorted(on) == ["O", "TW"]):
                j.v("preset", f"row {r}: preset {preset} produced the feature combination {on}")
        else:
            wrong = []
            for k in ("O", "TW", "L"):
                if feats[k] != (probs[k] == 1.0):
                    wrong.append(k)
            if feats["B"] and probs["B"] == 0.0:
                wrong.append("B")
            if wrong:
                j.v("preset", f"row {r}: preset {preset} but features {feats} (wrong: {wrong})")


# ---------------------------------------------------------------------------------------- scheduling


def judge_shop(j, td, cfg, B, jssp=False):
    J, M = cfg["num_jobs"], cfg["num_machines"]
    if jssp:
        lo_ops = cfg.get("min_ops_per_job") or M
        hi_ops = cfg.get("max_ops_per_job") or M
        lo_pt, hi_pt = cfg.get("min_processing_time", 1), cfg.get("max_processing_time", 99)
        lo_el = hi_el = 1
    else:
        lo_ops, hi_ops = cfg.get("min_ops_per_job", 4), cfg.get("max_ops_per_job", 6)
        lo_pt, hi_pt = cfg.get("min_processing_time", 1), cfg.get("max_processing_time", 20)
        lo_el, hi_el = cfg.get("min_eligible_ma_per_op", 1), cfg.get("max_eligible_ma_per_op") or M
    O = hi_ops * J
    if not _keys(j, td, ["start_op_per_job", "end_op_per_job", "proc_times", "pad_mask"]):
        return
    ok = [_shape(j, td, "start_op_per_job", (B, J)), _shape(j, td, "end_op_per_job", (B, J)), _shape(j, td, "proc_times", (B, M, O)), _shape(j, td, "pad_mask", (B, O))]
    if not all(ok):
        return
    _dtype(j, td, "pad_mask", torch.bool)
    if td["start_op_per_job"].dtype != torch.int64 or td["end_op_per_job"].dtype != torch.int64:
        j.v("dtype", "start/end_op_per_job are not int64 indices")
        return
    pt = td["proc_times"].double()
    if not _finite(j, pt, "proc_times"):
        return
    for r in range(B):
        s, e = td["start_op_per_job"][r].tolist(), td["end_op_per_job"][r].tolist()
        pad = td["pad_mask"][r].tolist()
        cnt = [b - a + 1 for a, b in zip(s, e)]
        if s[0] != 0 or any(s[i + 1] != e[i] + 1 for i in range(J - 1)) or any(c < 1 for c in cnt):
            j.v("range:start_op_per_job", f"row {r}: jobs are not contiguous blocks of operations (start {s}, end {e})")
            continue
        if any(c < lo_ops or c > hi_ops for c in cnt):
            j.v("range:end_op_per_job", f"row {r}: operations per job {cnt} outside [{lo_ops}, {hi_ops}]")
        n_real = e[-1] + 1
        if pad != [i >= n_real for i in range(O)]:
            j.v("range:pad_mask", f"row {r}: pad_mask does not mark exactly the operations beyond the last job ({n_real} real operations)")
            continue
        elig = (pt[r] > 0).sum(0)  # per op
        real = elig[:n_real]
        if bool((real < 1).any()):
            j.v("eligibility", f"row {r}: {int((real < 1).sum())} operations have no eligible machine")
        elif bool((real < lo_el).any()) or bool((real > hi_el).any()):
            j.v("eligibility", f"row {r}: eligible machines per operation {sorted(set(real.tolist()))} outside [{lo_el}, {hi_el}]")
        if n_real < O and bool((elig[n_real:] > 0).any()):
            if jssp:
                j.n("jssp: padded operations carry a processing time on one machine (the generator's own assertion demands it); informational")
            else:
                j.v("eligibility", f"row {r}: padded operations have eligible machines")
        pos = pt[r][:, :n_real][pt[r][:, :n_real] > 0]
        if pos.numel():
            _integral(j, pos, "proc_times")
            _range(j, pos, lo_pt, hi_pt, "proc_times")
        if float(pt[r].min()) < 0:
            j.v("range:proc_times", f"row {r}: negative processing time")


def judge_fjsp(j, td, cfg, B):
    judge_shop(j, td, cfg, B, jssp=False)


def judge_jssp(j, td, cfg, B):
    judge_shop(j, td, cfg, B, jssp=True)


def judge_ffsp(j, td, cfg, B):
    S, M, J = cfg.get("num_stage", 2), cfg.get("num_machine", 3), cfg.get("num_job", 4)
    if not _keys(j, td, ["run_time"]):
        return
    if tuple(td["run_time"].shape) not in ((B, J, M * S), (B, J, M, S)):
        j.v("shape", f"run_time has shape {tuple(td['run_time'].shape)} for {J} jobs, {M} machines, {S} stages")
        return
    if td["run_time"].dtype not in (torch.int64, torch.int32):
        j.v("dtype", f"run_time has dtype {td['run_time'].dtype}")
    _range(j, td["run_time"], cfg.get("min_time", 2), cfg.get("max_time", 10), "run_time", tol=0)


def judge_smtwtp(j, td, cfg, B):
    J = cfg.get("num_job", 10)
    if not _keys(j, td, ["job_due_time", "job_weight", "job_process_time"]):
        return
    span_hi = cfg["max_time_span"] if cfg.get("max_time_span") is not None else J / 2
    rng = dict(job_due_time=(cfg.get("min_time_span", 0), span_hi), job_weight=(cfg.get("min_job_weight", 0), cfg.get("max_job_weight", 1)), job_process_time=(cfg.get("min_process_time", 0), cfg.get("max_process_time", 1)))
    for k, (a, b) in rng.items():
        if not _shape(j, td, k, (B, J + 1)):
            continue
        _dtype(j, td, k, torch.float32)
        if float(td[k][:, 0].abs().max()) != 0:
            j.v(f"range:{k}", f"dummy job 0 has a non-zero {k}")
        _range(j, td[k][:, 1:], a, b, k)


# ---------------------------------------------------------------------------------------- graph


def judge_flp(j, td, cfg, B):
    n = cfg.get("num_loc", 100)
    if not _keys(j, td, ["locs", "orig_distances", "distances", "chosen", "to_choose"]):
        return
    ok = _coords(j, td, "locs", (B, n, 2), cfg)
    if ok and _shape(j, td, "orig_distances", (B, n, n)) and _finite(j, td["locs"], "locs"):
        ref = (td["locs"].double()[:, :, None, :] - td["locs"].double()[:, None, :, :]).norm(dim=-1)
        if float((td["orig_distances"].double() - ref).abs().max()) > 1e-5:
            j.v("range:orig_distances", "orig_distances is not the pairwise distance matrix of locs")
    if _shape(j, td, "distances", (B, n)):
        md = math.sqrt(2) * (cfg.get("max_loc", 1.0) - cfg.get("min_loc", 0.0))
        if float((td["distances"].double() - md).abs().max()) > 1e-5:
            j.v("range:distances", "initial distances are not the diameter of the square")
    if _shape(j, td, "chosen", (B, n)):
        _dtype(j, td, "chosen", torch.bool)
        if bool(td["chosen"].any()):
            j.v("range:chosen", "a location is chosen initially")
    if tuple(td["to_choose"].shape) not in ((B,), (B, 1)):
        j.v("shape", f"to_choose has shape {tuple(td['to_choose'].shape)}")
    elif bool((td["to_choose"] != cfg.get("to_choose", 10)).any()):
        j.v("range:to_choose", f"to_choose {td['to_choose'].flatten().tolist()}")


def judge_mcp(j, td, cfg, B):
    I, S = cfg.get("num_items", 200), cfg.get("num_sets", 100)
    lo_s, hi_s = cfg.get("min_size", 5), cfg.get("max_size", 15)
    if not _keys(j, td, ["membership", "weights", "n_sets_to_choose"]):
        return
    if _shape(j, td, "membership", (B, S, hi_s)) and _finite(j, td["membership"], "membership"):
        m = td["membership"].double()
        _integral(j, m, "membership")
        _range(j, m, 0, I, "membership", tol=0)
        srt = m.sort(dim=-1).values
        dup = (srt[..., 1:] == srt[..., :-1]) & (srt[..., 1:] > 0)
        if bool(dup.any()):
            j.v("range:membership", "an item is repeated inside a set")
        cnt = (m > 0).sum(-1)
        if bool((cnt < 1).any()) and lo_s >= 1:
            j.v("range:membership", "a set is empty although min_size >= 1")
        elif bool((cnt > hi_s).any()):
            j.v("range:membership", "a set is larger than max_size")
        elif bool((cnt < lo_s).any()):
            j.n("mcp: some sets hold fewer than min_size distinct items after repeated items were removed (informational: the docstring does not say whether min_size counts distinct items)")
    if _shape(j, td, "weights", (B, I)) and _finite(j, td["weights"], "weights"):
        _integral(j, td["weights"].double(), "weights")
        _range(j, td["weights"], cfg.get("min_weight", 1), cfg.get("max_weight", 10), "weights", tol=0)
    if _shape(j, td, "n_sets_to_choose", (B, 1)):
        if bool((td["n_sets_to_choose"] != cfg.get("n_sets_to_choose", 10)).any()):
            j.v("range:n_sets_to_choose", f"n_sets_to_choose {td['n_sets_to_choose'].flatten().tolist()}")


# ---------------------------------------------------------------------------------------- EDA (decap placement)


def _dpp_ctor(cls):
    """the chip data files cannot be downloaded here: synthetic files of the right shapes (mc/selection.py) are
    named through the generator's documented data_dir / *_file arguments; `size` is the grid side"""

    def make(**cfg):
        from ..selection import ensure_synth_chip

        cfg = dict(cfg)
        d, files = ensure_synth_chip(int(cfg.pop("size")))
        return cls(data_dir=d, chip_file=files["chip"], decap_file=files["decap"], freq_file=files["freq"], **cfg)

    return make


def judge_dpp(j, td, cfg, B, multi=False):
    size = cfg["size"]
    n = size * size
    if not _keys(j, td, ["locs", "probe", "action_mask"]):
        return
    if _shape(j, td, "locs", (B, n, 2)) and _finite(j, td["locs"], "locs"):
        _range(j, td["locs"], 0.0, 1.0, "locs")
        grid_ = torch.stack(torch.meshgrid(torch.arange(size), torch.arange(size), indexing="ij"), -1).reshape(-1, 2).double() / size
        if float((td["locs"].double() - grid_[None]).abs().max()) > 1e-6:
            j.v("range:locs", "locs is not the normalised grid of cells")
    if not _shape(j, td, "action_mask", (B, n)):
        return
    _dtype(j, td, "action_mask", torch.bool)
    if multi:
        if not _shape(j, td, "probe", (B, n)):
            return
        _dtype(j, td, "probe", torch.bool)
        probes = td["probe"].bool()
        cnt = probes.sum(-1)
        lo, hi = cfg.get("num_probes_min", 2), cfg.get("num_probes_max", 5)
        if bool((cnt < lo).any()) or bool((cnt > hi).any()):
            j.v("range:probe", f"number of probing ports {cnt.tolist()} outside [{lo}, {hi}]")
    else:
        if not _shape(j, td, "probe", (B, 1)):
            return
        if bool((td["probe"] < 0).any()) or bool((td["probe"] >= n).any()):
            j.v("range:probe", f"probing port {td['probe'].flatten().tolist()} is not a cell index")
            return
        probes = torch.zeros(B, n, dtype=torch.bool).scatter(1, td["probe"].long(), True)
    if bool((td["action_mask"].bool() & probes).any()):
        rows = (td["action_mask"].bool() & probes).any(-1).nonzero().flatten().tolist()
        j.v("forbidden_open", f"a probing port is offered as a decap location by the generated action_mask (rows {rows})")
    closed = (~td["action_mask"].bool() & ~probes).sum(-1)
    hi_k = cfg.get("num_keepout_max", 50)
    if bool((closed > hi_k + (1 if multi else 0)).any()):
        j.v("range:keepout", f"{closed.tolist()} closed non-port cells with num_keepout_max={hi_k}")
    if bool((td["action_mask"].sum(-1) < cfg.get("max_decaps", 20)).any()):
        j.n("dpp: fewer open cells than max_decaps for some instance (keep-out regions may cover the grid; informational)")


def judge_mdpp(j, td, cfg, B):
    judge_dpp(j, td, cfg, B, multi=True)


# ===================================================================================================
# generator registry: class, oracle, environment(s), size notions
# ===================================================================================================

DIST_CLASSES = {"cls:Cluster": DU.Cluster, "cls:Mixed": DU.Mixed, "cls:Gaussian_Mixture": DU.Gaussian_Mixture, "cls:Mix_Distribution": DU.Mix_Distribution, "cls:Mix_Multi_Distributions": DU.Mix_Multi_Distributions}


def materialise(cfg):
    """JSON configuration -> constructor kwargs ('cls:<Name>' -> the distribution class itself)"""
    out = {}
    for k, v in cfg.items():
        if isinstance(v, str) and v.startswith("cls:"):
            if v == "cls:Uniform":
                v = torch.distributions.Uniform
            elif v == "cls:Normal":
                v = torch.distributions.Normal
            else:
                v = DIST_CLASSES[v]
        out[k] = v
    return out


def _n(cfg):
    return cfg["num_loc"]


def _shop_ops(cfg, jssp):
    hi = (cfg.get("max_ops_per_job") or cfg["num_machines"]) if jssp else cfg.get("max_ops_per_job", 6)
    return hi * cfg["num_jobs"]


def _ffsp_dims(cfg):
    return cfg.get("num_job", 4), cfg.get("num_machine", 3) * cfg.get("num_stage", 2), cfg.get("num_stage", 2)


def _ffsp_cap(cfg):
    # waiting is only admitted while an operation is in progress: steps <= machines x (serial makespan + 1) + operations
    J, MT, S = _ffsp_dims(cfg)
    return MT * (J * S * cfg.get("max_time", 10) + 1) + J * S + 10


class G:
    def __init__(self, name, cls, judge, env, size, small, tiny, cap, checker=False, aux=(), solvable=lambda cfg: True):
        self.name, self.cls, self.judge, self.env, self.size, self.small, self.tiny, self.cap = name, cls, judge, env, size, small, tiny, cap
        self.checker, self.aux, self.solvable = checker, aux, solvable


def _routing(name, cls, judge, env, checker=True, aux=(), solvable=lambda cfg: True, nn=_n):
    return G(name, cls, judge, env, nn, lambda c: nn(c) <= 5, lambda c: nn(c) <= 4, lambda c: 4 * (_even(nn(c)) + 1) + 10, checker, aux, solvable)


GENS = {
    "tsp": _routing("tsp", TSPGenerator, judge_tsp, lambda g, c: TSPEnv(generator=g, check_solution=False)),
    "atsp": _routing("atsp", ATSPGenerator, judge_atsp, lambda g, c: ATSPEnv(generator=g, check_solution=False)),
    "cvrp": _routing("cvrp", CVRPGenerator, judge_cvrp, lambda g, c: CVRPEnv(generator=g, check_solution=False), aux=(("sdvrp", lambda g, c: SDVRPEnv(generator=g, check_solution=False), True),)),
    "cvrptw": _routing("cvrptw", CVRPTWGenerator, judge_cvrptw, lambda g, c: CVRPTWEnv(generator=g, check_solution=False)),
    "op": _routing("op", OPGenerator, judge_op, lambda g, c: OPEnv(generator=g, prize_type=c.get("prize_type", "dist"), check_solution=False)),
    "pctsp": _routing("pctsp", PCTSPGenerator, judge_pctsp, lambda g, c: PCTSPEnv(generator=g, check_solution=False), aux=(("spctsp", lambda g, c: SPCTSPEnv(generator=g, check_solution=False), True),)),
    "pdp": _routing("pdp", PDPGenerator, judge_pdp, lambda g, c: PDPEnv(generator=g, check_solution=False)),
    "mtsp": _routing("mtsp", MTSPGenerator, judge_mtsp, lambda g, c: MTSPEnv(generator=g, check_solution=False), checker=False),
    "svrp": _routing("svrp", SVRPGenerator, judge_svrp, lambda g, c: SVRPEnv(generator=g, check_solution=False)),
    # multi-depot MDCPDP is a recorded known finding of the environment: solvability with one depot only
    "mdcpdp": _routing("mdcpdp", MDCPDPGenerator, judge_mdcpdp, lambda g, c: MDCPDPEnv(generator=g, check_solution=False), checker=False, solvable=lambda c: c.get("num_depot", 5) == 1),
    "mtvrp": _routing("mtvrp", MTVRPGenerator, judge_mtvrp, lambda g, c: MTVRPEnv(generator=g, check_solution=False)),
    "fjsp": G("fjsp", FJSPGenerator, judge_fjsp, lambda g, c: FJSPEnv(generator=g), lambda c: _shop_ops(c, False), lambda c: _shop_ops(c, False) <= 6, lambda c: _shop_ops(c, False) <= 4, lambda c: 4 * _shop_ops(c, False) + 10, aux=(("fjsp:wait", lambda g, c: FJSPEnv(generator=g, mask_no_ops=False), False),)),
    "jssp": G("jssp", JSSPGenerator, judge_jssp, lambda g, c: JSSPEnv(generator=g), lambda c: _shop_ops(c, True), lambda c: _shop_ops(c, True) <= 9, lambda c: _shop_ops(c, True) <= 4, lambda c: 4 * _shop_ops(c, True) + 10),
    "ffsp": G("ffsp", FFSPGenerator, judge_ffsp, lambda g, c: FFSPEnv(generator=g), lambda c: _ffsp_dims(c)[0] * _ffsp_dims(c)[1], lambda c: _ffsp_dims(c)[0] <= 3 and _ffsp_dims(c)[1] <= 4, lambda c: _ffsp_dims(c)[0] <= 2 and _ffsp_dims(c)[1] <= 4, _ffsp_cap),
    "smtwtp": G("smtwtp", SMTWTPGenerator, judge_smtwtp, lambda g, c: SMTWTPEnv(generator=g, check_solution=False), lambda c: c.get("num_job", 10), lambda c: c.get("num_job", 10) <= 5, lambda c: c.get("num_job", 10) <= 4, lambda c: 4 * c.get("num_job", 10) + 10),
    "flp": G("flp", FLPGenerator, judge_flp, lambda g, c: FLPEnv(generator=g, check_solution=False), lambda c: c.get("num_loc", 100), lambda c: c.get("num_loc", 100) <= 6, lambda c: c.get("num_loc", 100) <= 5, lambda c: 4 * c.get("num_loc", 100) + 10),
    "dpp": G("dpp", _dpp_ctor(DPPGenerator), judge_dpp, lambda g, c: DPPEnv(generator=g, check_solution=False), lambda c: c["size"] ** 2, lambda c: c["size"] <= 3, lambda c: c["size"] <= 3, lambda c: c.get("max_decaps", 20) + 5),
    "mdpp": G("mdpp", _dpp_ctor(MDPPGenerator), judge_mdpp, lambda g, c: MDPPEnv(generator=g, check_solution=False), lambda c: c["size"] ** 2, lambda c: c["size"] <= 3, lambda c: c["size"] <= 3, lambda c: c.get("max_decaps", 20) + 5),
    "mcp": G("mcp", MCPGenerator, judge_mcp, lambda g, c: MCPEnv(generator=g, check_solution=False), lambda c: c.get("num_sets", 100), lambda c: c.get("num_sets", 100) <= 6, lambda c: c.get("num_sets", 100) <= 5, lambda c: 4 * c.get("num_sets", 100) + 10),
}

# ===================================================================================================
# configuration grids
# ===================================================================================================

DISTS = [
    dict(loc_distribution="normal", loc_mean=0.5, loc_std=0.2),
    dict(loc_distribution="gaussian", loc_mean=0.5, loc_std=0.1),
    dict(loc_distribution="center"),
    dict(loc_distribution="corner"),
    dict(loc_distribution="cluster", n_cluster=3),
    dict(loc_distribution="mixed", n_cluster_mix=1),
    dict(loc_distribution="gaussian_mixture", num_modes=3, cdist=10),
    dict(loc_distribution="gaussian_mixture", num_modes=0, cdist=0),
    dict(loc_distribution="gaussian_mixture", num_modes=1, cdist=1),
    dict(loc_distribution="mix_distribution", n_cluster=3, n_cluster_mix=1),
    dict(loc_distribution="mix_multi_distributions"),
]
DISTS_EXTRA = [
    dict(loc_distribution="cls:Uniform"),
    dict(loc_distribution="cls:Cluster", n_cluster=2),
    dict(loc_distribution="mixed", n_cluster_mix=2),
    dict(loc_distribution="uniform", min_loc=-1.0, max_loc=2.0),
    dict(loc_distribution="center", min_loc=2.0, max_loc=3.0),
    dict(loc_distribution="corner", min_loc=2.0, max_loc=3.0),
]


def grid(tier):
    """-> list of dict(gen, cfg, B): B is an int or a one-element list (both spellings reach Generator.__call__)"""
    q = tier == "quick"
    sizes = [3, 5, 20] if q else [3, 4, 5, 10, 20, 50]
    off = [7] if q else [7, 13]
    batches = [1, [2]] if q else [1, [2], 3]
    dsizes = [5] if q else [5, 20]
    out = []

    def add(gen, cfg, Bs=None):
        for B in Bs or batches:
            out.append(dict(gen=gen, cfg=cfg, B=B))

    # --- tsp
    for n in sizes + off:
        add("tsp", dict(num_loc=n))
    for n in dsizes:
        for dk in DISTS:
            add("tsp", dict(num_loc=n, **dk), [[2]] if q else [1, [2]])
    for dk in DISTS_EXTRA:
        add("tsp", dict(num_loc=5 if "n_cluster_mix" not in dk else 10, **dk), [[2]])
    # --- atsp
    for n in sizes + off:
        for tm in (True, False):
            add("atsp", dict(num_loc=n, tmat_class=tm))
    add("atsp", dict(num_loc=5, min_dist=0.5, max_dist=2.0), [[2]])
    # --- cvrp
    for n in sizes + off:
        add("cvrp", dict(num_loc=n))
    for n in dsizes:
        for cap in (10, 15.0, 100.0):
            add("cvrp", dict(num_loc=n, capacity=cap), [[2]] if q else [1, [2]])
        for dk in DISTS:
            if q and dk["loc_distribution"] in ("gaussian", "gaussian_mixture"):
                continue
            add("cvrp", dict(num_loc=n, **dk), [[2]])
    # a capacity override on a size that also has a table entry (20 -> 30): the override wins
    add("cvrp", dict(num_loc=20, capacity=50.0), [[2]])
    add("cvrp", dict(num_loc=10, capacity=9, max_demand=9), [[2]])
    add("cvrptw", dict(num_loc=20, capacity=50.0), [[2]])
    add("cvrp", dict(num_loc=5, depot_distribution="uniform"), [[2]])
    add("cvrp", dict(num_loc=5, min_demand=2, max_demand=6), [[2]])
    # --- cvrptw
    for n in sizes + off:
        for sc in (False, True):
            add("cvrptw", dict(num_loc=n, scale=sc))
    for n in dsizes:
        for ml, mt in ((100.0, 480), (150.0, 1000), (50.0, 200)):
            for sc in (False, True):
                add("cvrptw", dict(num_loc=n, max_loc=ml, max_time=mt, scale=sc), [[2]])
    # --- op
    for n in sizes + off:
        for pt in ("dist", "unif", "const"):
            add("op", dict(num_loc=n, prize_type=pt))
    add("op", dict(num_loc=5, prize_type="dist", max_length=1.5), [[2]])
    # --- pctsp
    for n in sizes + off:
        add("pctsp", dict(num_loc=n))
    add("pctsp", dict(num_loc=5, penalty_factor=2.0), [[2]])
    # --- pdp
    for n in sizes + off + ([] if q else [6]):
        add("pdp", dict(num_loc=n))
    add("pdp", dict(num_loc=4, depot_distribution="uniform"), [[2]])
    # --- mtsp
    for n in sizes + off:
        for a, b in ((1, 1), (1, 3), (2, 2)):
            if b < n:
                add("mtsp", dict(num_loc=n, min_num_agents=a, max_num_agents=b), None if (a, b) == (1, 3) else [[2]])
        if n >= 10:
            add("mtsp", dict(num_loc=n), [[2]])  # documented default: 5 agents
    # --- svrp
    for n in sizes + off:
        add("svrp", dict(num_loc=n))
    for n in dsizes:
        add("svrp", dict(num_loc=n, tech_costs=[1]), [[2]])
        add("svrp", dict(num_loc=n, tech_costs=[1, 2, 3, 4, 5]), [[2]])
    # --- mdcpdp
    for n in ([3, 4, 20] if q else [3, 4, 5, 10, 20, 50]):
        for D in (1, 2, 3):
            for mode in ("single", "multiple"):
                if D > 1 and n in (3, 5, 50):
                    continue
                add("mdcpdp", dict(num_loc=n, num_depot=D, depot_mode=mode), None if D == 1 else [[2]])
    add("mdcpdp", dict(num_loc=4, num_depot=1, min_capacity=1, max_capacity=2), [[2]])
    add("mdcpdp", dict(num_loc=4, num_depot=1, min_lateness_weight=0.5, max_lateness_weight=2.0), [[2]])
    # --- mtvrp
    presets = list(VARIANT_GENERATION_PRESETS.keys())
    for pr in presets + [None]:
        base = dict(variant_preset=pr) if pr is not None else dict(variant_preset=None, subsample=False)
        if q:
            ns = [4] if pr not in ("all", None) else [3, 5, 20]
        else:
            ns = [3, 4, 5, 10, 20, 50] if pr in ("all", "single_feat", "single_feat_otw", None, "ovrpbltw", "vrptw") else [4, 5, 20]
        for n in ns:
            add("mtvrp", dict(num_loc=n, **base), ([[2]] if pr not in ("all", None) else [1] if n >= 20 else None) if q else None)
    # vehicle speed (documented generator argument; travel time = distance / speed), with time windows and without
    for sp, mt in ([(0.5, 9.2), (2.0, 4.6), (4.0, 4.6)] if q else [(0.5, 9.2), (0.75, 4.6), (2.0, 4.6), (4.0, 4.6)]):
        for pr in ("vrptw", "ovrpbltw") if q else ("vrptw", "ovrpbltw", "vrpltw", "all"):
            for n in (4,) if q else (4, 10):
                add("mtvrp", dict(num_loc=n, variant_preset=pr, speed=sp, max_time=mt), [[2]])
    # --- fjsp
    shapes = [(2, 2, 1, 2, 1, None), (2, 2, 2, 2, 1, 1), (3, 2, 1, 2, 1, 2), (3, 3, 2, 2, 2, 3), (5, 3, 2, 3, 1, None), (10, 5, 4, 6, 1, None), (10, 5, 4, 6, 2, 3)]
    if q:
        shapes = [shapes[0], shapes[2], shapes[3], shapes[5]]
    for J, M, a, b, e1, e2 in shapes:
        cfg = dict(num_jobs=J, num_machines=M, min_ops_per_job=a, max_ops_per_job=b, min_eligible_ma_per_op=e1)
        if e2 is not None:
            cfg["max_eligible_ma_per_op"] = e2
        add("fjsp", cfg, [1] if (q and J >= 10) else None)
    add("fjsp", dict(num_jobs=3, num_machines=2, min_ops_per_job=1, max_ops_per_job=2, same_mean_per_op=False), [[2]])
    # --- jssp
    for J, M in ([(2, 2), (3, 3), (6, 6)] if q else [(2, 2), (3, 2), (3, 3), (6, 6), (10, 5)]):
        add("jssp", dict(num_jobs=J, num_machines=M))
    add("jssp", dict(num_jobs=3, num_machines=2, min_ops_per_job=1, max_ops_per_job=3, one2one_ma_map=False))
    if not q:
        add("jssp", dict(num_jobs=4, num_machines=3, min_ops_per_job=2, max_ops_per_job=3, one2one_ma_map=False))
    # --- ffsp
    for S, M, J in ([(2, 2, 3), (2, 3, 4), (3, 4, 20)] if q else [(2, 2, 2), (2, 2, 3), (2, 3, 4), (3, 2, 3), (2, 3, 10), (3, 4, 20)]):
        add("ffsp", dict(num_stage=S, num_machine=M, num_job=J), [1] if (q and J >= 20) else None)
    add("ffsp", dict(num_stage=2, num_machine=2, num_job=3, flatten_stages=False), [[2]])
    add("ffsp", dict(num_stage=2, num_machine=2, num_job=3, min_time=1, max_time=3), [[2]])
    # --- smtwtp
    for n in sizes + off:
        add("smtwtp", dict(num_job=n))
    add("smtwtp", dict(num_job=5, min_time_span=1.0, max_time_span=4.0, min_job_weight=0.5, max_job_weight=2.0, min_process_time=0.25, max_process_time=0.75), [[2]])
    # --- flp
    for n, k in ([(3, 1), (5, 2), (20, 5), (100, 10)] if q else [(3, 1), (4, 2), (5, 2), (5, 4), (10, 3), (20, 5), (50, 10), (100, 10)]):
        add("flp", dict(num_loc=n, to_choose=k))
    add("flp", dict(num_loc=5, to_choose=2, min_loc=-1.0, max_loc=1.0), [[2]])
    # documented unbounded / clustered location samplers
    for dk in [dict(loc_distribution="normal", loc_mean=0.5, loc_std=0.5), dict(loc_distribution="gaussian_mixture", num_modes=2, cdist=3), dict(loc_distribution="cluster", n_cluster=2)]:
        add("flp", dict(num_loc=5, to_choose=2, **dk), [[2]])
    # --- dpp / mdpp (synthetic chip data of the given grid size)
    for size, dec, klo, khi in ([(3, 2, 1, 3), (4, 3, 1, 5)] if q else [(3, 2, 1, 3), (3, 3, 1, 2), (4, 3, 1, 5), (5, 4, 2, 8)]):
        add("dpp", dict(size=size, max_decaps=dec, num_keepout_min=klo, num_keepout_max=khi))
        add("mdpp", dict(size=size, max_decaps=dec, num_keepout_min=klo, num_keepout_max=khi, num_probes_min=1, num_probes_max=3))
    # --- mcp
    mcps = [(5, 3, 1, 4, 2), (5, 4, 1, 3, 2), (6, 3, 1, 2, 1), (4, 3, 2, 2, 2), (10, 5, 2, 4, 2), (20, 10, 2, 5, 3), (200, 100, 5, 15, 10)]
    if q:
        mcps = [mcps[0], mcps[1], mcps[3], mcps[5], mcps[6]]
    for I, S, a, b, k in mcps:
        add("mcp", dict(num_items=I, num_sets=S, min_size=a, max_size=b, n_sets_to_choose=k))
    return out


def label_of(gen, cfg):
    """short canonical configuration string for the signature: every parameter except the plain size; sizes
    served by a look-up table are classed as table / off_table"""
    parts = []
    for k in sorted(cfg):
        if k == "num_loc" and gen not in ("flp",):
            continue
        v = cfg[k]
        parts.append(f"{k}={v}")
    if gen in ("cvrp", "cvrptw") and cfg.get("capacity") is None:
        parts.append("size=" + ("table" if cfg["num_loc"] in CAPACITIES else "off_table"))
    if gen == "op" and cfg.get("max_length") is None:
        parts.append("size=" + ("table" if cfg["num_loc"] in OP_MAX_LENGTHS else "off_table"))
    if gen == "pctsp":
        parts.append("size=" + ("table" if cfg["num_loc"] in PCTSP_MAX_LENGTHS else "off_table"))
    return ",".join(parts) if parts else "default"


def bnum(B):
    return B if isinstance(B, int) else int(B[0])


# ===================================================================================================
# one execution: run, judge, solvability
# ===================================================================================================


def execute(gen_obj, B, seam, seed):
    """-> (TensorDict | Exception, escaped: list of str).  Python's and numpy's global generators are re-seeded
    so that an execution is a function of (script, seed) even where library code draws from them."""
    random.seed(7919 * (seed + 1))
    np.random.seed(7919 * (seed + 1))
    py0, np0 = random.getstate(), np.random.get_state()[1].copy()
    try:
        with seam.active():
            res = gen_obj(list(B) if isinstance(B, list) else B)
    except ReplayDivergence:
        raise
    except Exception as e:  # noqa: BLE001 - judged by the caller
        res = e
    esc = []
    if seam.unowned:
        esc.append("torch global generator")
    if random.getstate() != py0:
        esc.append("python random module")
    if not np.array_equal(np.random.get_state()[1], np0):
        esc.append("numpy global generator")
    return res, esc


def schedule(env, td0, last, cap):
    td = env.reset(td0.clone())
    acts = []
    for _ in range(cap + 1):
        if bool(E.done_vec(td)[0]):
            return td, acts, "done"
        if len(acts) >= cap:
            break
        m = td["action_mask"].reshape(-1).nonzero().flatten().tolist()
        if not m:
            return td, acts, "dead_end"
        a = m[-1] if last else m[0]
        td = E.step_batch(env, td, [a])
        acts.append(a)
    return td, acts, "no_termination"


def solvability(env, name, td, rows, exhaustive, cap, checker, stats):
    """-> list of (observable, message, extra replay fields)"""
    out = []
    for r in rows:
        row = td[r : r + 1].clone()
        run_schedules = not exhaustive
        if exhaustive:
            try:
                tree = E.explore(env, row, keep_nodes=False, max_depth=cap, max_states=MAX_STATES)
            except Exception as e:  # noqa: BLE001
                out.append((f"env_crash:{type(e).__name__}", f"{name}: exploring row {r} raised {type(e).__name__}: {str(e)[:160]}", dict(row=r, env=name)))
                continue
            stats["traces"] += 1
            stats["env_states"] += tree.states
            if tree.crashes:
                h, e = tree.crashes[0]
                out.append((f"env_crash:{type(e).__name__}", f"{name}: exploring row {r}: the mask-admitted step {list(h)} raised {type(e).__name__}: {str(e)[:160]} ({len(tree.crashes)} such steps)", dict(row=r, env=name, actions=list(h))))
                continue
            if tree.dead:
                out.append(("dead_end", f"{name}: row {r}: no feasible action after {list(tree.dead[0])} although the episode is not finished ({len(tree.dead)} such states)", dict(row=r, env=name, actions=list(tree.dead[0]))))
            if tree.capped and tree.max_depth >= cap:
                out.append(("no_termination", f"{name}: row {r}: an episode is still running after {cap} steps", dict(row=r, env=name)))
            elif tree.capped:
                stats["budget_capped"] += 1
                run_schedules = True
            elif not tree.leaves and not tree.dead:
                out.append(("no_termination", f"{name}: row {r}: no episode terminated", dict(row=r, env=name)))
        if run_schedules:
            for last in (False, True):
                try:
                    tdf, acts, st = schedule(env, row, last, cap)
                except Exception as e:  # noqa: BLE001
                    out.append((f"env_crash:{type(e).__name__}", f"{name}: row {r}: {'last' if last else 'first'}-feasible schedule raised {type(e).__name__}: {str(e)[:160]}", dict(row=r, env=name)))
                    continue
                stats["traces"] += 1
                stats["env_states"] += len(acts) + 1
                if st != "done":
                    out.append((st, f"{name}: row {r}: always-{'last' if last else 'first'}-feasible schedule ends with {st} after {len(acts)} steps (cap {cap}): {acts[:30]}", dict(row=r, env=name, actions=acts)))
                elif checker:
                    try:
                        env.check_solution_validity(tdf, torch.tensor([acts], dtype=torch.long))
                    except Exception as e:  # noqa: BLE001
                        out.append(("checker", f"{name}: row {r}: check_solution_validity rejects the mask-confined episode {acts[:30]} with {type(e).__name__}: {str(e)[:120]}", dict(row=r, env=name, actions=acts)))
    return out


def wants_solvability(g, cfg, points):
    devs = [c for _, _, c in points if c]
    if not devs or g.tiny(cfg):
        return True
    return len(devs) == 1 and devs[0] in (1, 2)


def degenerate(td):
    """all locations of some row (depot included) coincide (or, where the sampler rescales by the spread of the
    points, are all non-finite for that reason): only the constant / alternating answer patterns of a coordinate
    draw produce this; it is a probability-zero instance"""
    if "locs" not in td.keys():
        return False
    pts = td["locs"]
    if "depot" in td.keys():
        dep = td["depot"]
        pts = torch.cat((dep[:, None, :] if dep.dim() == 2 else dep, pts), dim=1)
    if pts.shape[1] < 2:
        return False
    spread = (pts - pts[:, :1]).abs().amax(dim=(1, 2))
    return bool(((spread == 0) | ~torch.isfinite(spread)).any())


def fingerprint(td):
    acc = []
    for k in sorted(td.keys()):
        t = td[k].double()
        t = torch.nan_to_num(t, nan=-7.0, posinf=1e9, neginf=-1e9)
        acc.append(round(float((t * torch.arange(1, t.numel() + 1, dtype=torch.float64).reshape(t.shape).remainder(17).add(1)).sum()), 4))
    return acc


class Runner:
    """one (generator, configuration, batch size): builds generator / environments once"""

    def __init__(self, gen, cfg, B):
        self.g = GENS[gen]
        self.gen, self.cfg, self.B = gen, cfg, B
        self.label = label_of(gen, cfg)
        self.obj = None
        self.ctor_error = None
        try:
            self.obj = self.g.cls(**materialise(cfg))
        except Exception as e:  # noqa: BLE001
            self.ctor_error = e
        self._envs = None

    def envs(self):
        """[(name, env, exhaustive_allowed, has_checker)]; an environment that cannot be built is reported"""
        if self._envs is None:
            self._envs, self.env_errors = [], []
            if self.g.solvable(self.cfg):
                specs = [(self.gen, self.g.env, True, self.g.checker)] + [(nm, mk, False, ck) for nm, mk, ck in self.g.aux]
                for nm, mk, exh, ck in specs:
                    try:
                        self._envs.append((nm, mk(self.obj, self.cfg), exh, ck))
                    except Exception as e:  # noqa: BLE001
                        self.env_errors.append(f"{nm}: environment construction raised {type(e).__name__}: {str(e)[:120]}")
        return self._envs

    def sig(self, obs, trig):
        return dict(property=PID, env=self.gen, config=self.label, observable=obs, trigger=trig)

    def rec(self, choices, seed, **extra):
        r = dict(kind="generator", generator=self.gen, config=self.cfg, batch=self.B, choices=list(choices), seed=seed)
        r.update(extra)
        return r

    def judge(self, td):
        j = Judge()
        Bn = bnum(self.B)
        if tuple(td.batch_size) != (Bn,):
            j.v("shape", f"batch_size {tuple(td.batch_size)} for requested {self.B}")
            return j
        self.g.judge(j, td, self.cfg, Bn)
        return j

    def solv(self, td, points, stats, force=False):
        if not (force or wants_solvability(self.g, self.cfg, points)):
            return []
        out = []
        rows = range(bnum(self.B))
        cap = self.g.cap(self.cfg)
        is_default = not any(c for _, _, c in points)
        for nm, env, exh, ck in self.envs():
            if nm != self.gen and not (is_default or force):
                continue  # secondary environments (sdvrp, spctsp, fjsp with waiting) see the default execution only
            out += solvability(env, nm, td, rows, exh and self.g.small(self.cfg), cap, ck, stats)
        return out


def trigger_names(points):
    t = trigger_of(points)
    return frozenset() if t == "default_draw" else frozenset(t.split("+"))


def run_config(p, item, max_dev, seed):
    R = Runner(item["gen"], item["cfg"], item["B"])
    head = f"{R.gen}[{R.label}] n={R.g.size(R.cfg) if R.ctor_error is None else '?'} B={R.B}"
    if R.ctor_error is not None:
        e = R.ctor_error
        p.add(states=1, evaluations=1, distinct_count=1)
        p.outcome(f"{R.gen}|{R.label}|ctor_crash")
        p.violation(R.sig(f"crash:{type(e).__name__}", "construction"), R.rec([], seed, stage="constructor"), f"{head}: constructor raised {type(e).__name__}: {str(e)[:200]}")
        return
    stats = dict(traces=0, env_states=0, budget_capped=0)
    n_exec = 0
    buf = []  # (observable, trigger names, choices, message, extra replay fields)
    try:
        for choices, (res, esc), seam in explore18(lambda s: execute(R.obj, R.B, s, seed), max_dev=max_dev, seed=seed):
            n_exec += 1
            p.add(states=1, transitions=len(seam.points), distinct_count=1)
            names = trigger_names(seam.points)
            for what in esc:
                p.note(f"harness: a draw from the {what} escaped the seam in {R.gen}[{R.label}] (seam calls: {sorted(set(seam.calls))})")
            if isinstance(res, Exception):
                p.add(evaluations=1)
                obs = f"crash:{type(res).__name__}"
                p.outcome(f"{R.gen}|{R.label}|{obs}")
                buf.append((obs, names, choices, f"generator raised {type(res).__name__}: {str(res)[:200]}", dict(stage="_generate")))
                continue
            td = res
            p.add(evaluations=bnum(R.B))
            j = R.judge(td)
            found = [(o, m, {}) for o, m in j.bad]
            for m in j.notes:
                p.note(m)
            if not found or all(o.startswith("range") or o in ("time_window", "preset", "triangle", "eligibility") for o, _, _ in found):
                # structurally sound instance: can the environment run it?
                try:
                    found += R.solv(td, seam.points, stats)
                except Exception as e:  # noqa: BLE001
                    p.note(f"HARNESS-ERROR solvability of {head}: {type(e).__name__}: {e}")
                    p.add(harness_errors=1)
                for m in getattr(R, "env_errors", []):
                    p.note(f"harness: {R.gen}[{R.label}]: {m}")
            p.outcome(f"{R.gen}|{R.label}|{jhash(fingerprint(td))}|{'ok' if not found else found[0][0]}")
            if found and names and degenerate(td):
                # pattern-made instance whose locations all coincide: recorded, not counted as a violation
                p.add(degenerate_findings=len(found))
                for o, m, _ in found:
                    p.note(f"degenerate: {R.gen}: '{o}' when ALL locations of an instance coincide (only reachable through the constant / alternating answer patterns of a coordinate draw, probability zero; recorded, not counted as a violation)")
                continue
            for o, m, extra in found:
                buf.append((o, names, choices, m, extra))
    except ExplorationCapped:
        p.add(caps_hit=1)
        p.note(f"harness: choice exploration of {head} capped")
    # a finding is attributed to the smallest set of deviation patterns under which it was seen: what already
    # happens on the default draw (or under one deviation) is not reported again for its supersets
    by_obs = {}
    for b in buf:
        by_obs.setdefault(b[0], []).append(b)
    for obs, lst in by_obs.items():
        sets = {b[1] for b in lst}
        minimal = {s_ for s_ in sets if not any(t < s_ for t in sets)}
        emitted = {}
        for o, names, choices, m, extra in sorted(lst, key=lambda b: (n_deviations(b[2]), len(b[2]))):  # smallest script first
            trig = "+".join(sorted(names)) if names else "default_draw"
            if names in minimal and emitted.get(trig, 0) < 2:
                emitted[trig] = emitted.get(trig, 0) + 1
                p.violation(R.sig(o, trig), R.rec(choices, seed, **extra), f"{head} choices={choices}: {m}")
            else:
                p.add(violations_raw=1)
    p.add(traces_validated_against_impl=stats["traces"], env_states=stats["env_states"], configs=1)
    if stats["budget_capped"]:
        p.note(f"harness: {stats['budget_capped']} exhaustive exploration(s) of {head} exceeded {MAX_STATES} states; the two extreme schedules were run instead")
    p.sample(dict(generator=R.gen, config=R.cfg, batch=R.B, executions=n_exec, max_dev=max_dev), cap=1)


# ===================================================================================================
# work units
# ===================================================================================================

_POINTS = dict(dpp=3, mdpp=4, tsp=1, atsp=1, cvrp=2, cvrptw=4, op=1, pctsp=4, pdp=1, mtsp=2, svrp=3, mdcpdp=4, mtvrp=8, fjsp=5, jssp=3, ffsp=1, smtwtp=3, flp=1, mcp=3)


def max_dev_of(tier, item):
    if tier == "quick":
        return 1
    g = GENS[item["gen"]]
    cfg = item["cfg"]
    if cfg.get("loc_distribution") in ("gaussian_mixture", "mix_multi_distributions", "mix_distribution", "cluster", "mixed", "cls:Cluster"):
        return 1  # many choice points per row and mode
    if item["gen"] == "mtvrp":
        return 2 if (g.tiny(cfg) and bnum(item["B"]) <= 2) else 1
    return 2 if g.small(cfg) else 1


def cost_of(tier, item):
    """rough CPU estimate in ms (calibrated on the quick tier): executions x (generate + judge) + environment runs"""
    gen, cfg = item["gen"], item["cfg"]
    g = GENS[gen]
    k = _POINTS.get(gen, 3)
    if cfg.get("loc_distribution") not in (None, "uniform", "center", "corner", "normal", "gaussian", "cls:Uniform"):
        k += 6
    md = max_dev_of(tier, item)
    n_exec = 1 + 5 * k + (25 * k * (k - 1) // 2 if md == 2 else 0)
    size = g.size(cfg)
    rows = bnum(item["B"])
    cost = n_exec * (2.0 + size / 20.0)
    if not g.solvable(cfg):
        return cost
    n_solv = n_exec if g.tiny(cfg) else 1 + 2 * k
    if g.small(cfg):
        if gen == "ffsp":
            per = 150.0
        elif gen in ("fjsp", "jssp"):
            per = 30.0
        elif gen in ("cvrp", "cvrptw", "mtvrp", "svrp"):
            per = {3: 12.0, 4: 30.0}.get(size, 90.0)
        else:
            per = {3: 6.0, 4: 10.0}.get(size, 25.0)
    else:
        steps = {"ffsp": 1.5 * size, "fjsp": 1.5 * size, "jssp": size, "flp": cfg.get("to_choose", 10), "mcp": cfg.get("n_sets_to_choose", 10)}.get(gen, 2.0 * size)
        per = 2 * steps * (3.5 if gen in ("cvrptw", "mtvrp", "fjsp", "jssp") else 2.0)
    return cost + n_solv * rows * per


def make_units(tier, seed):
    only = os.environ.get("VERIF_ONLY")
    items = [it for it in grid(tier) if not only or only in it["gen"]]
    items.sort(key=lambda it: -cost_of(tier, it))
    budget = 2500.0 if tier == "quick" else 15000.0
    units, cur, acc = [], [], 0.0
    for it in items:
        c = cost_of(tier, it)
        if cur and acc + c > budget:
            units.append(cur)
            cur, acc = [], 0.0
        cur.append(it)
        acc += c
    if cur:
        units.append(cur)
    return [(tier, seed, u) for u in units]


def unit(item):
    tier, seed, cfgs = item
    p = Partial()
    for it in cfgs:
        try:
            run_config(p, it, max_dev_of(tier, it), seed)
        except Exception as e:  # noqa: BLE001 - keep the other configurations of the unit
            import traceback

            p.add(harness_errors=1)
            p.info.append(f"HARNESS-ERROR in {it}: {type(e).__name__}: {e}\n{traceback.format_exc()}")
    return p


# ===================================================================================================
# sampler-level units: the bounded location samplers themselves, two simultaneous deviations, far normal draws
# ===================================================================================================


class SeamFar(Seam18):
    """Seam18 whose normal draws have two more answers (mean +/- 4 sigma).  Used ONLY by the sampler-level units:
    a clamp that is not in place shows when a cluster centre near the border of its range (one deviation) meets a
    far draw in the outward direction (a second one) - two simultaneous deviations, beyond the generator grid's bound."""

    def _normal_pattern(self, shape, dtype, device, mean=0.0, std=1.0):
        c = self.choose("normal", 6 if self.float_patterns else 1)
        dtype = dtype if dtype in (torch.float32, torch.float64) else torch.float32
        if c == 0:
            z = _seam_orig_randn(tuple(shape), generator=self._gen(), dtype=dtype)
        else:
            z = torch.full(tuple(shape), {1: 0.0, 2: 2.0, 3: -2.0, 4: 4.0, 5: -4.0}[c], dtype=dtype)
        out = mean + std * z
        return out.to(device) if device is not None else out


def _seam_orig_randn(*a, **kw):
    from .. import seam as _s

    return _s._ORIG["randn"](*a, **kw)


SAMPLER_GRID = [  # (class name, constructor kwargs, batch, num_loc) - the samplers documented to stay inside [0, 1]
    ("Cluster", dict(n_cluster=1), 1, 4),
    ("Cluster", dict(n_cluster=2), 2, 4),
    ("Mixed", dict(n_cluster_mix=1), 1, 4),
    ("Mixed", dict(n_cluster_mix=1), 2, 5),
    ("Mixed", dict(n_cluster_mix=2), 1, 8),
]


def explore_far(run, max_dev, seed, limit=50_000):
    stack, n = [[]], 0
    while stack:
        prefix = stack.pop()
        seam = SeamFar(prefix, seed=seed, perm_all_upto=0)
        res = run(seam)
        n += 1
        if n > limit:
            raise ExplorationCapped(n)
        ch = seam.choices()
        if ch[: len(prefix)] != prefix:
            raise ReplayDivergence(f"prefix {prefix} replayed as {ch[:len(prefix)]}")
        yield ch, res, seam
        base_dev = n_deviations(ch[: len(prefix)])
        for i in range(len(ch) - 1, len(prefix) - 1, -1):
            if base_dev + n_deviations(ch[len(prefix) : i]) + 1 > max_dev:
                continue
            for alt in range(seam.points[i][1] - 1, 0, -1):
                stack.append(ch[:i] + [alt])


def run_sampler(name, kw, B, n, seam):
    try:
        with seam.active():
            return getattr(DU, name)(**kw).sample((B, n, 2))
    except ReplayDivergence:
        raise
    except Exception as e:  # noqa: BLE001
        return e


def judge_sampler(out, B, n):
    if isinstance(out, Exception):
        return f"crash:{type(out).__name__}", f"sample raised {type(out).__name__}: {str(out)[:160]}"
    if tuple(out.shape) != (B, n, 2):
        return "shape", f"shape {tuple(out.shape)} for requested {(B, n, 2)}"
    if not bool(torch.isfinite(out).all()):
        return "range:locs", "non-finite coordinates"
    if float(out.min()) < 0.0 or float(out.max()) > 1.0:
        return "range:locs", f"coordinates outside [0, 1]: min {float(out.min()):.4f} max {float(out.max()):.4f}"
    return None


def sampler_unit(item):
    _, tier, seed = item
    p = Partial()
    max_dev = 2 if tier == "quick" else 3
    for name, kw, B, n in SAMPLER_GRID:
        label = f"{name}({','.join(f'{k}={v}' for k, v in kw.items())}) B={B} n={n}"
        emitted, n_exec = 0, 0
        try:
            for choices, out, seam in explore_far(lambda s: run_sampler(name, kw, B, n, s), max_dev, seed):
                n_exec += 1
                p.add(states=1, transitions=len(seam.points), distinct_count=1, evaluations=B)
                bad = judge_sampler(out, B, n)
                p.outcome(f"sampler|{label}|{'ok' if bad is None else bad[0]}|{jhash([round(float(x), 4) for x in out.flatten()[:6]]) if not isinstance(out, Exception) else 'x'}")
                if bad is not None:
                    if emitted < 2:
                        emitted += 1
                        p.violation(
                            dict(property=PID, env=f"sampler:{name}", config=label, observable=bad[0], trigger=f"{n_deviations(choices)}_deviations"),
                            dict(kind="sampler", sampler=name, kwargs=kw, batch=B, num_loc=n, choices=list(choices), seed=seed),
                            f"distribution_utils.{label} choices={choices}: {bad[1]}",
                        )
                    else:
                        p.add(violations_raw=1)
        except ExplorationCapped:
            p.add(caps_hit=1)
            p.note(f"harness: sampler exploration of {label} capped")
        p.add(configs=1)
        p.sample(dict(sampler=label, executions=n_exec, max_dev=max_dev, normal_answers="seeded, mean, +-2 sigma, +-4 sigma"), cap=6)
    return p


def any_unit(item):
    return sampler_unit(item) if item[0] == "samplers" else unit(item)


DOC_NOTES = [
    "doc: docstrings that disagree with the emitted format were NOT treated as violations: CVRP 'capacity [batch_size]' (emitted [B,1], as CVRPTW documents); OP 'max_length [batch_size,1]' (emitted [B]); FLP 'to_choose [batch_size,1]' (emitted [B]); SVRP 'techs/skills [batch_size,num_loc]' (emitted [B,num_tech,1] / [B,num_loc,1]); CVRPTW 'durations/time_windows [..num_loc..]' (emitted with the depot: num_loc+1); FFSP 'run_time [B,num_job,num_machine,num_stage]' (emitted [B,num_job,num_machine*num_stage]); ATSP documents 'locs' (emits cost_matrix); PCTSP documents CVRP's demand/capacity (emits penalty / deterministic_prize / stochastic_prize); FJSP/JSSP document FFSP's arguments",
    "doc: MTVRPGenerator accepts loc_distribution / loc_sampler but always samples uniformly (generate_locations); OPGenerator ignores min_prize / max_prize / prize_distribution (prize_type decides); FFSP run times are drawn from [min_time, max_time) although max_time is documented as the maximum",
]


def main(tier):
    rep = Report(
        PID,
        tier,
        level="model_checking",
        rule="one case = one execution of generator(batch_size) under one script of seam answers (default or <= max_dev deviations), judged against the documented format and (selected executions) run to completion on the environment; distinct = distinct (generator, configuration, batch size, choices); evaluations = instances (rows) judged; validated = exhaustive environment explorations + deterministic schedules run",
    )
    rep.assumptions = [
        "answer patterns stay inside each sampler's support (rand never returns 1.0); python's random module (Mix_Multi_Distributions) is outside the seam and is re-seeded per execution",
        "seam.py's randint wrapper cannot parse randint(low, high, size=...) / randint(high, size=...): a subclass with a corrected argument parser is used (same answers)",
        "truncation of CVRPTW window starts to integers is by design: start >= floor(distance from depot) is demanded, not start >= distance",
        "solvability: exhaustive for size <= 5 (all executions for size <= 4; default + single all-low / all-high deviations otherwise), two extreme schedules + the environment's checker above; MDCPDP only with one depot (multi-depot is a recorded known finding); FFSP step cap = machines x (serial makespan + 1) + operations because waiting steps scale with processing times; other caps 4n+10",
        "DPP / MDPP generators are run on synthetic chip data files of the right shapes (the real files cannot be downloaded); only grid, ports, keep-out mask and solvability are judged, not the electrical reward",
        "instances whose locations ALL coincide because a coordinate draw was answered with a constant / alternating pattern are probability-zero artefacts of the answer alphabet: findings on them are informational (degenerate_findings), not violations",
        "capacity overrides below max_demand, MTSP with more agents than customers and similar self-contradictory parameterisations are not part of the grid (no documentation declares them valid)",
    ]
    seed = seed_from_env()
    units = make_units(tier, seed)
    rep.merge_all(pmap(any_unit, units + ([("samplers", tier, seed)] if not os.environ.get("VERIF_ONLY") or os.environ.get("VERIF_ONLY") in "samplers" else [])))
    for l in DOC_NOTES:
        rep.info.append(l)
    rep.extra["generators"] = sorted({it["gen"] for _, _, u in units for it in u})
    rep.extra["configurations"] = sum(len(u) for _, _, u in units)
    return rep.finish()


def replay(rec):
    if rec.get("kind") == "sampler":
        out = run_sampler(rec["sampler"], rec["kwargs"], rec["batch"], rec["num_loc"], SeamFar(rec["choices"], seed=rec["seed"], perm_all_upto=0))
        bad = judge_sampler(out, rec["batch"], rec["num_loc"])
        want = rec.get("signature", {}).get("observable")
        return (bad is not None and want in (None, bad[0])), f"distribution_utils.{rec['sampler']}({rec['kwargs']}).sample(({rec['batch']}, {rec['num_loc']}, 2)) choices={rec['choices']} seed={rec['seed']}: {bad[1] if bad else 'inside [0, 1]'}"
    R = Runner(rec["generator"], rec["config"], rec["batch"])
    want = rec.get("signature", {}).get("observable")
    if R.ctor_error is not None:
        obs = f"crash:{type(R.ctor_error).__name__}"
        return (want in (None, obs)), f"constructor of {rec['generator']}({rec['config']}) raised {type(R.ctor_error).__name__}: {R.ctor_error}"
    seam = Seam18(rec["choices"], seed=rec["seed"])
    res, esc = execute(R.obj, R.B, seam, rec["seed"])
    if isinstance(res, Exception):
        obs = f"crash:{type(res).__name__}"
        return (want in (None, obs)), f"{rec['generator']}({rec['config']})({rec['batch']}) under choices {rec['choices']} raised {type(res).__name__}: {res}"
    j = R.judge(res)
    found = [(o, m) for o, m in j.bad]
    stats = dict(traces=0, env_states=0, budget_capped=0)
    found += [(o, m) for o, m, _ in R.solv(res, seam.points, stats, force=True)]
    hit = [f for f in found if want is None or f[0] == want]
    text = f"{rec['generator']}({rec['config']})({rec['batch']}) choices={rec['choices']} seed={rec['seed']}: findings={found if found else 'none'}"
    if hit and trigger_names(seam.points) and degenerate(res):
        return False, text + " -- but all locations of the instance coincide (pattern-made, probability-zero instance): not counted"
    return bool(hit), text
