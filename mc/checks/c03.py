"""C03 — the reported reward equals the true objective of the executed solution.

Every leaf of the exhaustive E1 trees (routing, scheduling, selection; every reward mode) is
handed to `env._get_reward(final_td, actions)`; the value must equal the objective recomputed in
float64 from the ORIGINAL instance and the action list alone.  Leaves are also evaluated after
1 and 2 further padding steps (every padding action the mask offers), which is how a batched
decoding loop calls get_reward for rows that finished early.
"""
from __future__ import annotations

import torch

from .. import explore as E
from ..core import Partial, Report, pmap, seed_from_env
from ..oracles import routing as O
from ..routing import SPECS
from ..rtree import solo_confirm, solo_reward, explore_instance, sig, solo_validate, trace_replay_record, unit_instances, units

PID = "C03"


def tol(ref, steps):
    return 1e-5 * (1 + abs(ref)) * max(1, steps)


def lib_rewards(env, td, hists):
    """rewards of rows of td with action lists hists (grouped by length)"""
    out = [None] * len(hists)
    by_len = {}
    for i, h in enumerate(hists):
        by_len.setdefault(len(h), []).append(i)
    for L, idxs in by_len.items():
        sub = td[torch.tensor(idxs)].clone()
        acts = torch.tensor([list(hists[i]) for i in idxs], dtype=torch.long).reshape(len(idxs), L)
        E._set_bs(env, len(idxs))
        try:
            r = env._get_reward(sub, acts).reshape(len(idxs), -1)[:, 0].tolist()
            # asking again must give the same answer (evaluators call get_reward on a state the policy already scored):
            # a reward function that mutates the episode state is reported through the second value
            r2 = env._get_reward(sub, acts).reshape(len(idxs), -1)[:, 0].tolist()
            r = [b if abs(a - b) > 1e-7 * (1 + abs(a)) else a for a, b in zip(r, r2)]
        except Exception as e:  # a crash inside the reward function is an observable of its own
            r = [e] * len(idxs)
        for i, x in zip(idxs, r):
            out[i] = x
    return out


def padded(env, td, hists, fixed_horizon, max_len):
    """one more padding step: every offered action of every (finished) row, as long as a concrete
    stackable batch-mate of the alphabet could still be running (total length < max_len)"""
    if fixed_horizon:
        return None, []
    mask = td["action_mask"].reshape(len(hists), -1).tolist()
    rows, acts, nh = [], [], []
    for r, h in enumerate(hists):
        if len(h[0]) >= max_len:
            continue
        for a, m in enumerate(mask[r]):
            if m:
                rows.append(r)
                acts.append(a)
                nh.append((h[0] + (a,), h[1]))
    if not rows:
        return None, []
    nxt = E.step_batch(env, td[torch.tensor(rows)], acts)
    return nxt, nh


def judge_unit(spec, iid, inst, env, tree, p, oracle_obj, max_len, pad_depth=2):
    if not tree.leaves:
        return
    level_td = tree.leaf_td
    level = [(h, len(h)) for h in tree.leaves]  # (actions incl. padding, length of the real solution)
    refs = {}
    for pad in range(pad_depth + 1):
        rs = lib_rewards(env, level_td, [h for h, _ in level])
        for (h, L), r in zip(level, rs):
            sol = h[:L]
            if sol not in refs:
                refs[sol] = oracle_obj(sol)
            ref = refs[sol]
            p.add(evaluations=1)
            trig = "no_padding" if pad == 0 else "padding_steps>=1"
            if isinstance(r, Exception):
                p.violation(
                    sig(PID, spec, f"crash:{type(r).__name__}", trig),
                    trace_replay_record(spec, iid, inst, h, solution_len=L, expected=ref),
                    f"{spec.key} {iid}: _get_reward raised {type(r).__name__}: {str(r)[:120]} for actions {list(h)}",
                )
                continue
            p.outcome(f"{spec.key}|{round(ref, 4)}")
            if abs(r - ref) > tol(ref, len(h)):
                # confirm on single-instance semantics; a value that is only wrong inside the batched frontier is a C04 leak
                sc = solo_confirm(spec, inst, h)
                if sc["error"] is None and sc["admitted"]:
                    try:
                        r_solo = solo_reward(sc["env"], sc["td"], h)
                    except Exception:
                        r_solo = None
                    if r_solo is not None and abs(r_solo - ref) <= tol(ref, len(h)):
                        p.add(batch_leaks=1)
                        p.note(f"{spec.key} {iid}: reward differs between batched frontier ({r:.6f}) and solo run ({r_solo:.6f}) for {list(h)}: batch leak, reported under C04")
                        continue
                    if r_solo is not None:
                        r = r_solo
                p.violation(
                    sig(PID, spec, "reward", trig),
                    trace_replay_record(spec, iid, inst, h, solution_len=L, expected=ref, observed=r),
                    f"{spec.key} {iid}: reward {r:.6f} != objective {ref:.6f} for actions {list(h)} (solution = first {L} actions)",
                )
        if pad == pad_depth:
            break
        level_td, level = padded(env, level_td, level, spec.fixed_horizon, max_len)
        if level_td is None:
            break


def shape_sig(td):
    return E.group_sig(td)


def group_max_depths(spec, insts):
    gm = {}
    for iid, inst in insts:
        td0 = spec.td(inst)
        t = E.explore(spec.env(inst), td0, keep_nodes=False)
        g = shape_sig(td0)
        gm[g] = max(gm.get(g, 0), t.max_depth)
    return gm


def unit(item):
    key, tier, seed = item
    spec = SPECS[key]
    insts = spec.instances(tier, seed)
    p = Partial()
    gm = group_max_depths(spec, insts)
    for iid, inst in insts:
        env, td0, tree = explore_instance(spec, inst, p)
        oi, oc = spec.oracle_inst(inst), spec.oracle_cfg(inst)
        judge_unit(spec, iid, inst, env, tree, p, lambda sol: O.objective(spec.kind, oi, sol, oc), gm[shape_sig(td0)])
        p.add(distinct_count=len(tree.leaves))
        if tree.leaves:
            h = tree.leaves[len(tree.leaves) // 2]
            p.sample(dict(env=spec.key, instance=iid, actions=list(h), objective=O.objective(spec.kind, oi, h, oc)), cap=1)
        rewards = lib_rewards(env, tree.leaf_td, tree.leaves) if tree.leaves else []
        rewards = [None if isinstance(r, Exception) else r for r in rewards]
        bad = solo_validate(spec, env, td0, tree, p, k=4 if tier == "quick" else 12, rewards=rewards)
        for b in bad:
            p.note(f"{spec.key} {iid}: batched frontier and solo stepping disagree at {b} (reported under C04)")
    return p


def main(tier):
    rep = Report(PID, tier, rule="one case = one complete mask-admitted action sequence (leaf of the exhaustive tree) of one instance in one reward mode, evaluated with 0, 1 and 2 padding steps; distinct = distinct (environment/mode, instance, sequence)")
    rep.assumptions = [
        "objective recomputed in float64 from the generator-format instance and the action list; tolerance 1e-5*(1+|obj|)*steps",
        "sizes bounded by the alphabets (DESIGN section 3)",
    ]
    from ..rtree import selected_specs

    items = [(s.key, tier, seed_from_env()) for s in selected_specs()]
    from . import c03_extra

    parts = pmap(unit, items) + c03_extra.run(tier)
    rep.merge_all(parts)
    rep.extra["environments"] = sorted({i[0] for i in items}) + c03_extra.env_keys()
    return rep.finish()


def replay(rec):
    if rec.get("kind") != "env_trace":
        from . import c03_extra

        return c03_extra.replay(rec)
    spec = SPECS[rec["spec"]]
    inst = rec["instance"]
    env = spec.env(inst)
    acts = rec["actions"]
    td, masks, dones = E.run_solo(env, spec.td(inst), acts)
    L = rec["solution_len"]
    ref = O.objective(spec.kind, spec.oracle_inst(inst), acts[:L], spec.oracle_cfg(inst))
    try:
        r = solo_reward(env, td, acts)
    except Exception as e:
        return True, f"solo replay: _get_reward raised {type(e).__name__}: {e}"
    bad = abs(r - ref) > tol(ref, len(acts))
    return bad, f"solo replay: reward={r} objective={ref} (solution = first {L} of {len(acts)} actions)"
