"""C02 — episodes terminate: no dead ends; finished instances stay finished and steppable.

(a) E1 over every environment: in every reachable state of every alphabet instance an unfinished row
    has at least one feasible action; the exhaustive BFS terminates (no cycles) and no path is longer
    than the problem's step bound.
(b) padding chains: from every leaf (finished row) every offered padding action is taken, repeatedly, up
    to the longest episode any same-size batch-mate can have (the step bound): the step must not
    crash, `done` must stay True and (for environments whose episodes have different lengths) at
    least one action must stay on offer.
(c) the real decoding loops (`rollout`, `ConstructivePolicy.forward`-style loop) are run on mixed batches
    with first-/last-feasible choosers and must finish below the step bound.
"""
from __future__ import annotations

import torch

from .. import explore as E
from ..core import Partial, Report, pmap, seed_from_env
from ..registry import ALL_SPECS, all_units, unit_instances_any
from ..rtree import sig, trace_replay_record

PID = "C02"


def pad_chains(spec, iid, inst, env, tree, p, bound):
    if tree.leaf_td is None or spec.fixed_horizon:
        return
    td = tree.leaf_td
    hists = list(tree.leaves)
    lens = [len(h) for h in hists]
    depth = 0
    while hists:
        B = len(hists)
        mask = td["action_mask"].reshape(B, -1).tolist()
        done = E.done_vec(td).tolist()
        rows, acts, nh, nl = [], [], [], []
        for r in range(B):
            p.add(states=1, padded_states=1)
            if not done[r]:
                p.violation(
                    sig(PID, spec, "done", "padding_steps>=1"),
                    trace_replay_record(spec, iid, inst, hists[r], solution_len=lens[r]),
                    f"{spec.key} {iid}: finished row became unfinished after padding actions {list(hists[r][lens[r]:])} (solution {list(hists[r][:lens[r]])})",
                )
                continue
            if len(hists[r]) >= bound:
                continue
            av = [a for a, m in enumerate(mask[r]) if m]
            if not av:
                p.violation(
                    sig(PID, spec, "mask", "finished_row_without_action"),
                    trace_replay_record(spec, iid, inst, hists[r], solution_len=lens[r]),
                    f"{spec.key} {iid}: finished row is offered no action after {list(hists[r])} while batch-mates may still run (all-masked row would reach the softmax)",
                )
                continue
            for a in av[:2] if depth >= 2 else av:
                rows.append(r)
                acts.append(a)
                nh.append(hists[r] + (a,))
                nl.append(lens[r])
        if not rows:
            break
        sub = td[torch.tensor(rows)]
        try:
            td = E.step_batch(env, sub, acts)
        except Exception as e:
            # locate one failing row solo to give an exact witness
            for r, a, h, L in zip(rows, acts, nh, nl):
                try:
                    E.run_solo(env, spec.td(inst), h)
                except Exception as e2:
                    p.violation(
                        sig(PID, spec, f"crash:{type(e2).__name__}", "padding_steps>=1"),
                        trace_replay_record(spec, iid, inst, h, solution_len=L),
                        f"{spec.key} {iid}: stepping a finished row with offered padding action crashed ({type(e2).__name__}: {str(e2)[:100]}) after {list(h)}",
                    )
                    break
            else:
                raise e
            return
        p.add(transitions=len(acts))
        hists, lens = nh, nl
        depth += 1


def shape_sig(td):
    return E.group_sig(td)


def unit(item):
    """one unit = one spec.  Pass 1 measures, per group of stackable instances, the longest episode any
    alphabet instance of that group has: a finished row is padded only as long as such a concrete
    batch-mate would still be running (padding further would demand more than the property states)."""
    key, tier, seed = item
    spec = ALL_SPECS[key]
    insts = spec.instances(tier, seed)
    p = Partial()
    group_max = {}
    for iid, inst in insts:
        td0 = spec.td(inst)
        t = E.explore(spec.env(inst), td0, keep_nodes=False)
        g = shape_sig(td0)
        group_max[g] = max(group_max.get(g, 0), t.max_depth)
    for iid, inst in insts:
        env = spec.env(inst)
        td0 = spec.td(inst)
        tree = E.explore(env, td0, keep_nodes=False)
        p.add(states=tree.states, transitions=tree.transitions, leaves=len(tree.leaves), trees=1, distinct_count=tree.states)
        p.maxi(max_depth=tree.max_depth)
        if tree.capped:
            p.add(caps_hit=1)
        bound = spec.step_bound(inst)
        for h, e in tree.crashes:
            p.violation(
                sig(PID, spec, f"crash:{type(e).__name__}", "mask_admitted_step"),
                trace_replay_record(spec, iid, inst, h),
                f"{spec.key} {iid}: the mask-admitted step {list(h)} raises {type(e).__name__}: {str(e)[:100]}",
            )
        for h in tree.dead:
            p.violation(
                sig(PID, spec, "mask", "dead_end"),
                trace_replay_record(spec, iid, inst, h),
                f"{spec.key} {iid}: unfinished state after {list(h)} has no feasible action (dead end)",
            )
        if bound is not None and tree.max_depth > bound:
            longest = max(tree.leaves, key=len) if tree.leaves else ()
            p.violation(
                sig(PID, spec, "steps", "bound_exceeded"),
                trace_replay_record(spec, iid, inst, longest, bound=bound),
                f"{spec.key} {iid}: episode of {tree.max_depth} steps exceeds the step bound {bound}",
            )
        p.outcome(f"{spec.key}|depth{tree.max_depth}|masks{len(tree.masks_seen)}")
        p.sample(dict(env=spec.key, instance=iid, states=tree.states, leaves=len(tree.leaves), max_depth=tree.max_depth, step_bound=bound), cap=1)
        pad_chains(spec, iid, inst, env, tree, p, group_max[shape_sig(td0)])
        # one solo replay of the longest path (conformance)
        if tree.leaves:
            h = max(tree.leaves, key=len)
            td, masks, dones = E.run_solo(env, td0, h)
            p.add(traces_validated_against_impl=1)
            if not dones[-1] or any(dones[:-1]):
                p.note(f"{spec.key} {iid}: solo replay of {list(h)} disagrees with batched exploration on done (C04)")
    return p


# ---------------------------------------------------------------------------------------------
# (c) real decoding loops on mixed batches
# ---------------------------------------------------------------------------------------------


def chooser(kind):
    def pol(td):
        m = td["action_mask"].reshape(td.batch_size[0], -1)
        if not bool(m.any(-1).all()):
            raise RuntimeError("all-masked row reached the policy")
        idx = torch.arange(m.shape[1])
        if kind == "first":
            a = (m.float() * (m.shape[1] - idx)).argmax(-1)
        elif kind == "last":
            a = (m.float() * (idx + 1)).argmax(-1)
        else:  # alternate by step parity stored in the closure
            pol.t += 1
            a = (m.float() * ((m.shape[1] - idx) if pol.t % 2 else (idx + 1))).argmax(-1)
        td.set("action", a)
        return td

    pol.t = 0
    return pol


def loop_unit(item):
    from rl4co.utils.decoding import rollout

    key, tier, seed = item
    spec = ALL_SPECS[key]
    p = Partial()
    insts = spec.instances(tier, seed)
    # group by shape signature so that rows can be stacked
    groups = {}
    for iid, inst in insts:
        td = spec.td(inst)
        shape_sig = tuple((k, tuple(v.shape[1:]), str(v.dtype)) for k, v in sorted(td.items()))
        groups.setdefault(shape_sig, []).append((iid, inst, td))
    for g in groups.values():
        g = g[:6]
        tds = torch.cat([t for _, _, t in g], 0)
        env = spec.env(g[0][1])
        bound = max((spec.step_bound(i) or 64) for _, i, _ in g)
        for kind in ("first", "last", "alternate"):
            td = env.reset(tds.clone())
            try:
                E._set_bs(env, td.batch_size[0])
                env.get_reward = lambda td_, a_: torch.zeros(td_.batch_size[0])  # C03/C06 own the reward and the checker
                try:
                    _, _, actions = rollout(env, td, chooser(kind), max_steps=bound + 1)
                finally:
                    del env.get_reward
            except Exception as e:
                p.violation(
                    dict(property=PID, env=spec.key.partition(":")[0], config=spec.key.partition(":")[2], observable=f"crash:{type(e).__name__}", trigger="decoding_loop_mixed_batch"),
                    dict(kind="loop", spec=spec.key, instance_ids=[i for i, _, _ in g], instances=[i for _, i, _ in g], chooser=kind, bound=bound),
                    f"{spec.key}: rollout over batch {[i for i, _, _ in g]} with {kind}-feasible chooser failed: {type(e).__name__}: {str(e)[:160]}",
                )
                if "Timeout" in type(e).__name__:
                    return p  # the decoding loop does not come back: no further loops are attempted on this environment
                continue
            steps = actions.shape[-1]
            p.add(evaluations=1, transitions=steps * len(g), loops=1)
            p.maxi(max_steps_seen=steps)
            if steps > bound:
                p.violation(
                    dict(property=PID, env=spec.key.partition(":")[0], config=spec.key.partition(":")[2], observable="steps", trigger="decoding_loop_bound_exceeded"),
                    dict(kind="loop", spec=spec.key, instance_ids=[i for i, _, _ in g], instances=[i for _, i, _ in g], chooser=kind, bound=bound),
                    f"{spec.key}: rollout over batch {[i for i, _, _ in g]} needs {steps} > bound {bound} steps",
                )
    return p


def main(tier):
    rep = Report(PID, tier, rule="one case = one reachable state (action history) of one instance, including padded post-finish states; distinct = distinct (environment, instance, history); every state is checked for an offered action / done monotonicity")
    rep.assumptions = [
        "step bounds per DESIGN Appendix B; scheduling environments: termination of the exhaustive BFS itself (finite tree) is the check",
        "padding chains follow every offered action for the first two padding steps and the first two offered actions afterwards",
        "a finished row is padded up to the longest episode of any stackable alphabet instance of the same environment (a concrete slower batch-mate), not up to the numeric step bound",
    ]
    seed = seed_from_env()
    import os

    only = os.environ.get("VERIF_ONLY")
    alph = "thorough" if tier == "quick" else "deep"  # cheap check: one alphabet notch deeper than its tier name
    items = [(k, alph, seed) for k in ALL_SPECS if not only or only in k]
    rep.extra["alphabet"] = alph
    parts = pmap(unit, items)
    parts += pmap(loop_unit, items)
    rep.merge_all(parts)
    rep.extra["environments"] = sorted({i[0] for i in items})
    return rep.finish()


def replay(rec):
    spec = ALL_SPECS[rec["spec"]]
    if rec.get("kind") == "loop":
        from rl4co.utils.decoding import rollout

        tds = torch.cat([spec.td(i) for i in rec["instances"]], 0)
        env = spec.env(rec["instances"][0])
        try:
            td = env.reset(tds)
            E._set_bs(env, td.batch_size[0])
            env.get_reward = lambda td_, a_: torch.zeros(td_.batch_size[0])
            _, _, actions = rollout(env, td, chooser(rec["chooser"]), max_steps=rec["bound"] + 1)
        except Exception as e:
            return True, f"rollout failed: {type(e).__name__}: {e}"
        return actions.shape[-1] > rec["bound"], f"rollout finished in {actions.shape[-1]} steps (bound {rec['bound']})"
    inst = rec["instance"]
    env = spec.env(inst)
    try:
        td, masks, dones = E.run_solo(env, spec.td(inst), rec["actions"])
    except Exception as e:
        return True, f"solo replay crashed: {type(e).__name__}: {e}"
    L = rec.get("solution_len", len(rec["actions"]))
    obs = rec["signature"]["observable"]
    if obs == "done":
        return (not dones[-1]), f"done flags along the trace: {dones}"
    if obs == "mask":
        return (not any(masks[-1])), f"final mask: {masks[-1]} done={dones[-1]}"
    if obs == "steps":
        return len(rec["actions"]) > rec["bound"] and dones[-1] and not any(dones[:-1]), f"episode length {len(rec['actions'])} bound {rec['bound']}"
    return False, "trace replayed without crash"
