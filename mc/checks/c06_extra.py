"""C06 for the linked-list checkers of the improvement environments (TSP k-opt, PDP ruin-repair):
ALL successor arrays over n <= 5 nodes (n^n of them) are fed to check_solution_validity as `rec_best`.
Expected: every valid tour (single cycle through all nodes; PDP: pickups before deliveries) is accepted; every
array with a missing / duplicated node (non-permutation) is rejected; for PDP every single cycle with a delivery
before its pickup is rejected.  Permutations made of several sub-cycles are outside the property's list
('missing or duplicated customer') and only counted."""
from __future__ import annotations

import itertools
import os

import torch
from tensordict import TensorDict

from ..core import Partial, pmap
from .c09 import cycle_order, make_env, precedence_ok

PID = "C06"


def env_keys():
    only = os.environ.get("VERIF_ONLY")
    return [k for k in ("tsp_kopt", "pdp_ruin_repair") if not only or only in k]


def call(env, recs):
    td = TensorDict(dict(rec_best=torch.tensor(recs, dtype=torch.long)), batch_size=[len(recs)])
    try:
        env.check_solution_validity(td)
        return None
    except Exception as e:  # noqa: BLE001
        return e


def unit(item):
    key, n = item
    kind = "tsp" if key == "tsp_kopt" else "pdp"
    env = make_env(kind, n)
    p = Partial()
    valid, invalid, other = [], [], 0
    for rec in itertools.product(range(n), repeat=n):
        rec = list(rec)
        p.add(evaluations=1, states=1)
        is_perm = sorted(rec) == list(range(n))
        order = cycle_order(rec)
        if order is not None and (kind == "tsp" or precedence_ok(order)):
            valid.append(rec)
        elif not is_perm or (order is not None and kind == "pdp"):
            invalid.append(rec)
        else:
            other += 1
    p.add(not_demanded=other, distinct_count=len(valid) + len(invalid), transitions=len(valid) + len(invalid))
    if valid and call(env, valid) is not None:
        for rec in valid:
            e = call(env, [rec, rec])
            if e is not None:
                p.violation(dict(property=PID, env=key, config="", observable="checker_rejects_feasible", trigger="valid_tour"), dict(kind="linked", env=key, n=n, rec=rec), f"{key}: checker rejects the valid tour {rec}: {type(e).__name__}: {str(e)[:60]}")
    for rec in invalid:
        e = call(env, [rec, rec])
        p.outcome(f"{key}|{e is None}")
        if e is None:
            trig = "missing_or_duplicated_node" if sorted(rec) != list(range(n)) else "delivery_before_pickup"
            p.violation(dict(property=PID, env=key, config="", observable="checker_accepts_infeasible", trigger=trig), dict(kind="linked", env=key, n=n, rec=rec), f"{key}: checker accepts the invalid successor array {rec} ({trig})")
    p.sample(dict(env=key, n=n, valid_tours=len(valid), invalid_demanded=len(invalid), multi_cycle_permutations_not_demanded=other), cap=1)
    return p


def run(tier):
    items = []
    for k in env_keys():
        for n in ((3, 5) if k == "pdp_ruin_repair" else (3, 4, 5)):
            items.append((k, n))
    return pmap(unit, items)


def replay(rec):
    kind = "tsp" if rec["env"] == "tsp_kopt" else "pdp"
    env = make_env(kind, rec["n"])
    e = call(env, [rec["rec"], rec["rec"]])
    order = cycle_order(rec["rec"])
    ok = order is not None and (kind == "tsp" or precedence_ok(order))
    return (ok and e is not None) or (not ok and e is None), f"oracle valid={ok}; checker: {'accepts' if e is None else type(e).__name__}"
