"""C19 — persistence round-trips preserve instances, environments and policies.

E2 bisimulation between an original and its round-tripped twin, in lock-step along ALL action sequences of small
alphabet instances (masks, done and reward compared at every step):
 (a) save_tensordict_to_npz -> load_npz_to_tensordict / env.load_data, for every environment's alphabet instances
     (keys, dtypes, shapes, values; then the bisimulation);
 (b) generate_dataset files -> env.dataset(phase, filename) for the problems the generator script supports
     (dataset sizes 1..3, smallest table sizes): instance content equals the generating function's output up to the
     documented demand/capacity normalisation, and two extreme mask-confined schedules complete and pass the checker;
 (c) FJSP / JSSP `parser.write` -> file generator -> instance: content equal up to padding, then the bisimulation;
 (d) copy.deepcopy(env) and pickle round trip of every environment (also after a reset, so that state kept outside the
     TensorDict - FFSP's index tables - is covered): rng state equal, then the bisimulation;
 (e) REINFORCE (no / exponential / rollout / critic baselines), POMO, A2C and PPO: trainer.save_checkpoint after a
     short fit -> load_from_checkpoint: policy parameters, greedy solutions and rewards on alphabet instances and the
     baseline state (EMA value, warm-up weight's baselines, rollout policy weights, critic weights) are equal.
"""
from __future__ import annotations

import copy
import os
import pickle
import shutil
import tempfile

import torch

from .. import explore as E
from ..core import VERIF, Partial, Report, pmap, seed_from_env
from ..policies import make
from ..registry import ALL_SPECS
from ..seam import Seam

PID = "C19"
SCRATCH = os.path.join(VERIF, ".cache", "c19")


def sig(env, config, observable, trigger):
    return dict(property=PID, env=env, config=config, observable=observable, trigger=trigger)


def bisimulate(spec, env_a, td_a, env_b, td_b, p, what, rec, max_leaves=400):
    """lock-step along every action sequence of A; B must offer the same masks / done / reward"""
    tree = E.explore(env_a, td_a)
    p.add(states=tree.states, transitions=tree.transitions)
    leaves = tree.leaves if len(tree.leaves) <= max_leaves else [tree.leaves[i] for i in E.pick_indices(len(tree.leaves), max_leaves)]
    by_hist = {n.hist: n for n in tree.nodes}
    for h in leaves:
        try:
            tdb, masks, dones = E.run_solo(env_b, td_b, h)
        except Exception as e:  # noqa: BLE001
            p.violation(sig(spec.key.partition(":")[0], spec.key.partition(":")[2], f"crash:{type(e).__name__}", what), dict(rec, actions=list(h)), f"{spec.key}: the {what} twin crashes on actions {list(h)}: {type(e).__name__}: {str(e)[:80]}")
            return
        p.add(traces_validated_against_impl=1, evaluations=1)
        for t in range(len(h) + 1):
            nd = by_hist[h[:t]]
            if nd.mask != masks[t] or nd.done != dones[t]:
                p.violation(sig(spec.key.partition(":")[0], spec.key.partition(":")[2], "mask", what), dict(rec, actions=list(h[:t])), f"{spec.key}: after {list(h[:t])} the {what} twin offers {masks[t]} (done={dones[t]}), the original {nd.mask} (done={nd.done})")
                return
        try:
            tda, _, _ = E.run_solo(env_a, td_a, h)
            acts = torch.tensor([list(h)])
            if spec.kind == "ffsp":
                continue
            ra = float(env_a._get_reward(tda, acts).reshape(-1)[0])
            rb = float(env_b._get_reward(tdb, acts).reshape(-1)[0])
        except Exception:  # noqa: BLE001
            continue
        if abs(ra - rb) > 1e-6 * (1 + abs(ra)):
            p.violation(sig(spec.key.partition(":")[0], spec.key.partition(":")[2], "reward", what), dict(rec, actions=list(h)), f"{spec.key}: reward of {list(h)} is {ra} on the original and {rb} on the {what} twin")
            return


def same_td(a, b, p, spec, what, rec, keys=None):
    ok = True
    for k in keys or a.keys():
        if k not in b.keys():
            p.violation(sig(spec.key.partition(":")[0], spec.key.partition(":")[2], "keys", what), rec, f"{spec.key}: key {k} is lost by {what}")
            ok = False
            continue
        x, y = a[k], b[k]
        if x.dtype != y.dtype or tuple(x.shape) != tuple(y.shape):
            p.violation(sig(spec.key.partition(":")[0], spec.key.partition(":")[2], "dtype_or_shape", what), rec, f"{spec.key}: {k} is {x.dtype}{tuple(x.shape)} before and {y.dtype}{tuple(y.shape)} after {what}")
            ok = False
        elif not torch.equal(x, y):
            p.violation(sig(spec.key.partition(":")[0], spec.key.partition(":")[2], "values", what), rec, f"{spec.key}: values of {k} change through {what}")
            ok = False
    return ok


def small_instances(spec, seed, k=3):
    insts = spec.instances("quick", seed)
    return [insts[i] for i in E.pick_indices(len(insts), k)]


# ------------------------------------------------------------------------------------------- (a) npz, (d) copies


def unit_env(item):
    from rl4co.data.utils import load_npz_to_tensordict, save_tensordict_to_npz

    _, skey, tier, seed = item
    spec = ALL_SPECS[skey]
    p = Partial()
    d = tempfile.mkdtemp(prefix="c19_", dir=_scratch())
    try:
        for iid, inst in small_instances(spec, seed, 3 if tier == "quick" else 6):
            env = spec.env(inst)
            td0 = spec.td(inst)
            rec = dict(kind="env", spec=skey, instance_id=iid, instance=inst)
            p.case(f"{skey}|{iid}")
            # (a) npz
            f = os.path.join(d, "inst.npz")
            save_tensordict_to_npz(td0, f)
            loaded = load_npz_to_tensordict(f)
            if same_td(td0, loaded, p, spec, "npz_roundtrip", rec):
                bisimulate(spec, env, td0, env, loaded, p, "npz_roundtrip", rec)
            # (a'') a file written in double precision (plain numpy / external benchmark data): dtypes and values survive
            td64 = td0.clone()
            for k_ in list(td64.keys()):
                if td64[k_].dtype == torch.float32:
                    td64.set(k_, td64[k_].double() + 1e-12)
            f64 = os.path.join(d, "inst64.npz")
            save_tensordict_to_npz(td64, f64)
            p.add(states=1, evaluations=1)
            same_td(td64, load_npz_to_tensordict(f64), p, spec, "npz_roundtrip_float64", rec)
            # (a') the environment's own loader where it reads this format (base implementation, MTVRP)
            from rl4co.envs.common.base import RL4COEnvBase

            own = getattr(type(env).load_data, "__func__", type(env).load_data)
            if own is getattr(RL4COEnvBase.load_data, "__func__", RL4COEnvBase.load_data) or spec.kind == "mtvrp":
                try:
                    l2 = env.load_data(f)
                    p.add(states=1, evaluations=1)
                    same_td(td0, l2, p, spec, "env_load_data", rec)
                    if spec.kind == "mtvrp":
                        l3 = env.load_data(f, scale=True)
                        for k_ in ("demand_linehaul", "demand_backhaul"):
                            want = td0[k_] / td0["capacity_original"]
                            if not torch.allclose(l3[k_].float(), want.float(), atol=1e-7):
                                p.violation(sig("mtvrp", skey.partition(":")[2], "values", "env_load_data_scaled"), rec, f"{skey} {iid}: load_data(scale=True) gives {k_} {l3[k_].flatten().tolist()}, documented demand / capacity_original = {want.flatten().tolist()}")
                        others = [k_ for k_ in td0.keys() if k_ not in ("demand_linehaul", "demand_backhaul")]
                        same_td(td0.select(*others), l3.select(*others), p, spec, "env_load_data_scaled", rec)
                except Exception as e:  # noqa: BLE001
                    p.violation(sig(skey.partition(":")[0], skey.partition(":")[2], f"crash:{type(e).__name__}", "env_load_data"), rec, f"{skey} {iid}: env.load_data of a file written by save_tensordict_to_npz fails: {type(e).__name__}: {str(e)[:100]}")
            # (d) deepcopy / pickle, before and after a reset
            for when in ("fresh", "after_reset"):
                if when == "after_reset":
                    env.reset(td0.clone())
                for how in ("deepcopy", "pickle"):
                    try:
                        # an rng that has been used (a fresh copy would otherwise share the untouched default state)
                        env._set_seed(977 + len(iid))
                        torch.rand(3, generator=env.rng)
                        st_before = env.rng.get_state().clone()
                        twin = copy.deepcopy(env) if how == "deepcopy" else pickle.loads(pickle.dumps(env))
                    except Exception as e:  # noqa: BLE001
                        p.violation(sig(skey.partition(":")[0], skey.partition(":")[2], f"crash:{type(e).__name__}", how), rec, f"{skey}: {how} of the environment ({when}) fails: {type(e).__name__}: {str(e)[:80]}")
                        continue
                    # (the library's environments all share torch's default generator object, so the copy's generator is
                    # compared with the state the original had when it was copied, not with the original's live object)
                    if not torch.equal(twin.rng.get_state(), st_before) or not torch.equal(twin.rng.get_state(), env.rng.get_state()):
                        p.violation(sig(skey.partition(":")[0], skey.partition(":")[2], "rng_state", how), rec, f"{skey}: {how} does not preserve the environment's rng state")
                    bisimulate(spec, env, td0, twin, td0, p, f"{how}|{when}", rec, max_leaves=60)
    finally:
        shutil.rmtree(d, ignore_errors=True)
    p.sample(dict(part="npz+copies", env=skey), cap=1)
    return p


def _scratch():
    os.makedirs(SCRATCH, exist_ok=True)
    return SCRATCH


# ------------------------------------------------------------------------------------------- (b) generated datasets


GEN_PROBLEMS = {  # generate_data problem name -> (spec key, graph size, distribution)
    "tsp": ("tsp", 10, None),
    "vrp": ("cvrp", 10, None),
    "vrp_sd": ("sdvrp", 10, None),
    "pdp": ("pdp", 10, None),
    "op": ("op:dist", 20, "dist"),
    "op_const": ("op:const", 20, "const"),
    "pctsp": ("pctsp", 20, None),
    "atsp": ("atsp", 10, None),
}


def unit_dataset(item):
    import numpy as np

    from rl4co.data.generate_data import generate_dataset, generate_env_data

    _, name, size, tier, seed = item
    skey, n, dist = GEN_PROBLEMS[name]
    problem = name.split("_")[0]
    spec = ALL_SPECS[skey]
    p = Partial()
    d = tempfile.mkdtemp(prefix="c19_", dir=_scratch())
    cfg = f"{problem}|n={n}|size={size}|dist={dist}"
    rec = dict(kind="dataset", name=name, size=size, seed=seed)
    env_name = skey.partition(":")[0]
    try:
        fname = os.path.join(d, "data.npz")
        generate_dataset(filename=fname, problem=problem, data_distribution=dist if dist else "all", dataset_size=size, graph_sizes=[n], seed=1234 + seed, overwrite=True)
        np.random.seed(1234 + seed)
        raw = generate_env_data(problem, size, n, dist)
        fake = {"locs": [0] * n, "cost_matrix": [0] * n}
        env = spec.cls(generator_params=spec.gen_params(fake), test_file="data.npz", data_dir=d, **spec.env_kwargs)
        ds = env.dataset(phase="test")
        from torch.utils.data import DataLoader

        td = next(iter(DataLoader(ds, batch_size=size + 1, shuffle=False, collate_fn=ds.collate_fn)))
        p.add(states=1, evaluations=size, transitions=1)
        p.case(f"{cfg}")
        if td.batch_size[0] != size:
            p.violation(sig(env_name, cfg, "size", "dataset_file"), rec, f"{name}: dataset of {size} instances is loaded with batch size {tuple(td.batch_size)}")
            return p
        for k, v in raw.items():
            if k not in td.keys():
                p.violation(sig(env_name, cfg, "keys", "dataset_file"), rec, f"{name}: key {k} of the generated file is not in the loaded dataset")
                continue
            want = torch.from_numpy(np.asarray(v))
            if k == "demand" and "capacity" in raw:
                want = want / torch.from_numpy(np.asarray(raw["capacity"]))[:, None]  # documented normalisation
            if tuple(td[k].shape) != tuple(want.shape) or not torch.allclose(td[k].float(), want.float(), atol=1e-7):
                p.violation(sig(env_name, cfg, "values", "dataset_file"), rec, f"{name}: {k} differs between the generated file and the loaded dataset")
        # solvability of the loaded instances with two extreme schedules + the shipped checker
        for pick in ("first", "last"):
            tdr = env.reset(td.clone())
            acts = []
            for _ in range(4 * n + 10):
                if bool(E.done_vec(tdr).all()):
                    break
                m = tdr["action_mask"].reshape(size, -1)
                idx = torch.arange(m.shape[1])
                a = (m.float() * ((m.shape[1] - idx) if pick == "first" else (idx + 1))).argmax(-1)
                acts.append(a)
                tdr.set("action", a)
                tdr = env.step(tdr)["next"]
            p.add(transitions=len(acts) * size, traces_validated_against_impl=size)
            if not bool(E.done_vec(tdr).all()):
                p.violation(sig(env_name, cfg, "no_termination", "dataset_file"), rec, f"{name}: {pick}-feasible schedule on the loaded dataset does not terminate")
                continue
            try:
                r = env.get_reward(tdr, torch.stack(acts, 1))
                if not torch.isfinite(r).all():
                    raise AssertionError("non-finite reward")
            except Exception as e:  # noqa: BLE001
                p.violation(sig(env_name, cfg, f"checker:{type(e).__name__}", "dataset_file"), rec, f"{name}: {pick}-feasible schedule on the loaded dataset is rejected: {type(e).__name__}: {str(e)[:80]}")
        p.outcome(cfg)
    except Exception as e:  # noqa: BLE001
        p.violation(sig(env_name, cfg, f"crash:{type(e).__name__}", "dataset_file"), rec, f"{name}: generate_dataset -> env.dataset failed: {type(e).__name__}: {str(e)[:120]}")
    finally:
        shutil.rmtree(d, ignore_errors=True)
    if problem == "vrp" and size >= 2:
        # the documented file format stores one capacity PER INSTANCE: a file whose rows have different capacities
        d2 = tempfile.mkdtemp(prefix="c19_", dir=_scratch())
        try:
            np.random.seed(99 + seed)
            raw2 = generate_env_data("vrp", size, n)
            raw2["capacity"] = (raw2["capacity"] * np.array([1.0 + 0.75 * i for i in range(size)], dtype=np.float32)).astype(np.float32)
            np.savez(os.path.join(d2, "mixed.npz"), **raw2)
            td2 = spec.cls.load_data(os.path.join(d2, "mixed.npz"))
            want = torch.from_numpy(raw2["demand"]) / torch.from_numpy(raw2["capacity"])[:, None]
            p.add(states=1, evaluations=size)
            p.case(f"{cfg}|mixed_capacity")
            if not torch.allclose(td2["demand"].float(), want.float(), atol=1e-7):
                p.violation(sig(env_name, cfg, "values", "per_instance_capacity"), dict(rec, mixed_capacity=True), f"{name}: a dataset file with per-instance capacities {raw2['capacity'].tolist()} is loaded with demands that are not demand_i / capacity_i")
            # value patterns of the raw integer demands: all 1 (unit-demand instances), all equal to the capacity, 0/1
            for tag, fill in (("unit_demand", 1.0), ("full_demand", None), ("small_demand", 2.0)):
                raw3 = generate_env_data("vrp", size, n)
                cap3 = float(np.asarray(raw3["capacity"]).reshape(-1)[0])
                raw3["demand"] = np.full_like(raw3["demand"], cap3 if fill is None else fill)
                np.savez(os.path.join(d2, f"{tag}.npz"), **raw3)
                td3 = spec.cls.load_data(os.path.join(d2, f"{tag}.npz"))
                want3 = torch.from_numpy(raw3["demand"]) / torch.from_numpy(np.asarray(raw3["capacity"]))[:, None]
                p.add(states=1, evaluations=size)
                p.case(f"{cfg}|{tag}")
                if not torch.allclose(td3["demand"].float(), want3.float(), atol=1e-7):
                    p.violation(sig(env_name, cfg, "values", tag), dict(rec, demand_pattern=tag), f"{name}: a dataset file whose raw demands are all {raw3['demand'].reshape(-1)[0]} (capacity {cap3}) is loaded with demand {td3['demand'].reshape(-1)[:3].tolist()}..., expected demand / capacity = {want3.reshape(-1)[0].item()}")
        finally:
            shutil.rmtree(d2, ignore_errors=True)
    p.sample(dict(part="generated_dataset", problem=name, graph_size=n, dataset_size=size), cap=1)
    return p


# ------------------------------------------------------------------------------------------- (c) text files


def write_jssp_files(where, insts):
    """JSSP text format as documented in jssp/parser.py (the library ships a reader but no writer):
    first line `<jobs> <machines>`, then one line per job of `<machine (1-based)> <duration>` pairs."""
    for k, inst in enumerate(insts):
        J, M = len(inst["start_op_per_job"]), len(inst["proc_times"])
        lines = [f"{J} {M}"]
        for s_, e_ in zip(inst["start_op_per_job"], inst["end_op_per_job"]):
            pairs = []
            for op in range(int(s_), int(e_) + 1):
                m = next(m for m in range(M) if inst["proc_times"][m][op] > 0)
                pairs += [str(m + 1), str(int(inst["proc_times"][m][op]))]
            lines.append(" ".join(pairs))
        with open(os.path.join(where, f"{str(k + 1).rjust(4, '0')}_{J}j_{M}m.txt"), "w") as fh:
            fh.write("\n".join(lines))


def unit_parser(item):
    _, skey, tier, seed = item
    spec = ALL_SPECS[skey]
    p = Partial()
    if spec.jssp:
        from rl4co.envs.scheduling.jssp.generator import JSSPFileGenerator as FileGen
        from rl4co.envs.scheduling.jssp import parser
    else:
        from rl4co.envs.scheduling.fjsp.generator import FJSPFileGenerator as FileGen
        from rl4co.envs.scheduling.fjsp import parser
    insts = spec.instances("quick", seed)
    insts = [insts[i] for i in E.pick_indices(len(insts), 8 if tier == "quick" else 24)]
    env_name = skey.partition(":")[0]
    for iid, inst in insts:
        d = tempfile.mkdtemp(prefix="c19_", dir=_scratch())
        rec = dict(kind="parser", spec=skey, instance_id=iid, instance=inst)
        try:
            env = spec.env(inst)
            td0 = spec.td(inst)
            tdr = env.reset(td0.clone())
            if hasattr(parser, "write"):
                parser.write(d, tdr)
            else:
                write_jssp_files(d, [inst])
            n_ops = len(inst["pad_mask"])
            g = FileGen(d, n_ops_max=n_ops) if not spec.jssp else FileGen(d)
            td1 = g(1)
            p.add(states=1, evaluations=1)
            p.case(f"{skey}|{iid}")
            real = int((~td0["pad_mask"][0]).sum())
            ok = True
            for k in ("start_op_per_job", "end_op_per_job"):
                if td1[k].long().tolist() != td0[k].long().tolist():
                    p.violation(sig(env_name, skey.partition(":")[2], "values", "text_roundtrip"), rec, f"{skey} {iid}: {k} {td0[k].tolist()} becomes {td1[k].tolist()} through write/read")
                    ok = False
            if not torch.equal(td1["proc_times"][0, :, :real].float(), td0["proc_times"][0, :, :real].float()) or bool(td1["proc_times"][0, :, real:].any()):
                p.violation(sig(env_name, skey.partition(":")[2], "values", "text_roundtrip"), rec, f"{skey} {iid}: processing times change through write/read")
                ok = False
            if int((~td1["pad_mask"][0]).sum()) != real:
                p.violation(sig(env_name, skey.partition(":")[2], "values", "text_roundtrip"), rec, f"{skey} {iid}: number of real operations {real} becomes {int((~td1['pad_mask'][0]).sum())}")
                ok = False
            if ok:
                twin_td = td1.clone()
                twin_td["start_op_per_job"] = twin_td["start_op_per_job"].long()
                twin_td["end_op_per_job"] = twin_td["end_op_per_job"].long()
                env_b = copy.deepcopy(env)
                bisimulate(spec, env, td0, env_b, td1, p, "text_roundtrip", rec, max_leaves=100)
        except Exception as e:  # noqa: BLE001
            p.violation(sig(env_name, skey.partition(":")[2], f"crash:{type(e).__name__}", "text_roundtrip"), rec, f"{skey} {iid}: write/read round trip failed: {type(e).__name__}: {str(e)[:120]}")
        finally:
            shutil.rmtree(d, ignore_errors=True)
    # several instances with DIFFERENT operation counts in one directory: the file generator pads them to a common size
    by_jobs = {}
    for iid, inst in spec.instances("quick", seed):
        by_jobs.setdefault((len(inst["start_op_per_job"]), len(inst["proc_times"])), []).append((iid, inst))
    for (J, M), group in by_jobs.items():
        reals = {}
        for iid, inst in group:
            reals.setdefault(sum(1 for x in inst["pad_mask"] if not x), (iid, inst))
        if len(reals) < 2:
            continue
        chosen = [reals[k] for k in sorted(reals)][:3]
        d = tempfile.mkdtemp(prefix="c19_", dir=_scratch())
        rec = dict(kind="parser_dir", spec=skey, instance_ids=[c[0] for c in chosen])
        try:
            env = spec.env(chosen[0][1])
            tds = torch.cat([spec.td(c[1]) for c in chosen], 0)
            if hasattr(parser, "write"):
                parser.write(d, env.reset(tds.clone()))
            else:
                write_jssp_files(d, [c[1] for c in chosen])
            g = FileGen(d)
            td1 = g(len(chosen))
            p.add(states=1, evaluations=len(chosen))
            p.case(f"{skey}|dir|{[c[0] for c in chosen]}")
            # the file generator is a cursor over the files: every later pass (second epoch, second evaluation), at every
            # request size that divides the number of files, must hand out the same instances again
            N = len(chosen)
            for bs in sorted({1, N}):
                g2 = FileGen(d)
                for pass_ in range(3):
                    for k in range(N // bs):
                        try:
                            tdk = g2(bs)
                            same = tuple(tdk.batch_size) == (bs,) and all(torch.equal(tdk[key_].float(), td1[key_][k * bs : (k + 1) * bs].float()) for key_ in ("proc_times", "pad_mask", "start_op_per_job", "end_op_per_job"))
                            what = f"returns batch size {tuple(tdk.batch_size)} / different instances"
                        except Exception as e:  # noqa: BLE001
                            same, what = False, f"raises {type(e).__name__}: {str(e)[:80]}"
                        p.add(states=1, evaluations=bs)
                        if not same:
                            p.violation(sig(env_name, skey.partition(":")[2], "values", "repeated_pass_over_files"), dict(rec, request=bs, pass_no=pass_), f"{skey}: directory of {N} files, requests of {bs}: request {k} of pass {pass_} {what} (first pass gave the written instances)")
                            break
                    else:
                        continue
                    break
            # files are listed in directory order: match every read instance to a written one by content
            for r in range(td1.batch_size[0]):
                real = int((~td1["pad_mask"][r]).sum())
                cand = [c for c in chosen if sum(1 for x in c[1]["pad_mask"] if not x) == real and torch.equal(torch.tensor(c[1]["proc_times"])[:, :real].float(), td1["proc_times"][r, :, :real].float())]
                if not cand:
                    p.violation(sig(env_name, skey.partition(":")[2], "values", "text_roundtrip_directory"), rec, f"{skey}: instance {r} read from a directory of {len(chosen)} files with {real} real operations matches none of the written instances {[(c[0], sum(1 for x in c[1]['pad_mask'] if not x)) for c in chosen]}")
                    continue
                iid, inst = cand[0]
                td0 = spec.td(inst)
                one = td1[r : r + 1].clone()
                # same schedule semantics: every action sequence of the original on the re-read (re-padded) instance
                env_b = copy.deepcopy(env)
                bisimulate(spec, spec.env(inst), td0, env_b, one, p, "text_roundtrip_directory", dict(rec, instance_id=iid, instance=inst), max_leaves=60)
        except Exception as e:  # noqa: BLE001
            p.violation(sig(env_name, skey.partition(":")[2], f"crash:{type(e).__name__}", "text_roundtrip_directory"), rec, f"{skey}: directory round trip of {[c[0] for c in chosen]} failed: {type(e).__name__}: {str(e)[:120]}")
        finally:
            shutil.rmtree(d, ignore_errors=True)
    p.sample(dict(part="text_files", env=skey, instances=len(insts)), cap=1)
    return p


# ------------------------------------------------------------------------------------------- (e) checkpoints


def unit_ckpt(item):
    from rl4co.models.rl import A2C, PPO, REINFORCE
    from rl4co.models.rl.common.critic import CriticNetwork
    from rl4co.models.rl.reinforce.baselines import CriticBaseline
    from rl4co.models.zoo import POMO
    from rl4co.utils.trainer import RL4COTrainer

    _, algo, steps, tier, seed = item
    p = Partial()
    spec = ALL_SPECS["tsp"]
    insts = [x for x in spec.instances("quick", seed) if len(x[1]["locs"]) == 4][:3]
    env = spec.env(insts[0][1])
    torch.manual_seed(10 + seed)
    policy = make("am_inst", env, 0, train=True)
    common = dict(batch_size=2, train_data_size=4, val_data_size=2, test_data_size=2, optimizer_kwargs=dict(lr=1e-3))
    critic = lambda: CriticNetwork(copy.deepcopy(policy.encoder), embed_dim=16, hidden_dim=32)  # noqa: E731
    if algo.startswith("reinforce:"):
        bl = algo.split(":")[1]
        model = REINFORCE(env, policy, baseline=CriticBaseline(critic()) if bl == "critic" else bl, **common)
    elif algo == "pomo":
        model = POMO(env, policy, num_starts=2, num_augment=8, **common)
    elif algo == "a2c":
        model = A2C(env, policy, critic=critic(), **common)
    elif algo == "amppo:heads4":
        # a zoo model that builds its own default policy when none is given, handed a policy OBJECT whose configuration
        # differs from that default without changing any parameter shape (4 attention heads instead of 8)
        from rl4co.models.zoo import AMPPO
        from rl4co.models.zoo.am import AttentionModelPolicy

        torch.manual_seed(31)
        policy = AttentionModelPolicy(env_name=env.name, num_heads=4, num_encoder_layers=1)
        model = AMPPO(env, policy=policy, ppo_epochs=1, mini_batch_size=2, **common)
    else:
        model = PPO(env, policy, critic=critic(), ppo_epochs=1, mini_batch_size=2, **common)
    d = tempfile.mkdtemp(prefix="c19_", dir=_scratch())
    rec = dict(kind="ckpt", algo=algo, steps=steps)
    cfg = f"{algo}|epochs={steps}"
    try:
        trainer = RL4COTrainer(max_epochs=max(steps, 1), limit_train_batches=(2 if steps else 0), limit_val_batches=(1 if steps else 0), accelerator="cpu", devices=1, logger=False, enable_checkpointing=False, enable_progress_bar=False, enable_model_summary=False, default_root_dir=d, num_sanity_val_steps=0)
        trainer.fit(model)
        path = os.path.join(d, "model.ckpt")
        trainer.save_checkpoint(path)
        kw = {}
        if algo in ("a2c", "ppo") or algo == "reinforce:critic":
            kw = dict(critic=critic()) if algo in ("a2c", "ppo") else dict(baseline=CriticBaseline(critic()))
        # first the plain user call (everything comes from the checkpoint's saved hyper-parameters, the policy OBJECT with its
        # configuration included); only if that is impossible on this tree, with the constructor arguments supplied again
        try:
            loaded = type(model).load_from_checkpoint(path, weights_only=False)
            p.add(plain_loads=1)
        except Exception as e_plain:  # noqa: BLE001
            if algo.startswith("amppo"):
                raise
            p.note(f"{algo}: load_from_checkpoint(path) without arguments fails ({type(e_plain).__name__}: {str(e_plain)[:80]}); loaded with env / policy supplied")
            loaded = type(model).load_from_checkpoint(path, env=env, policy=make("am_inst", env, 0, train=True), weights_only=False, **kw)
        p.add(states=1, evaluations=1, transitions=steps)
        p.case(cfg)
        # policy parameters
        sa, sb = model.policy.state_dict(), loaded.policy.state_dict()
        bad = [k for k in sa if k not in sb or not torch.equal(sa[k], sb[k])]
        if bad:
            p.violation(sig("checkpoint", cfg, "policy_weights", algo), rec, f"{algo}: policy parameters {bad[:3]} differ after save_checkpoint / load_from_checkpoint")
        # greedy solutions
        model.policy.eval()
        loaded.policy.eval()
        for iid, inst in insts:
            td0 = spec.td(inst)
            with torch.no_grad():
                oa = model.policy(env.reset(td0.clone()), env, decode_type="greedy")
                ob = loaded.policy(env.reset(td0.clone()), env, decode_type="greedy")
            p.add(traces_validated_against_impl=1)
            if oa["actions"].tolist() != ob["actions"].tolist() or abs(float(oa["reward"]) - float(ob["reward"])) > 1e-6:
                p.violation(sig("checkpoint", cfg, "greedy_solution", algo), rec, f"{algo}: greedy solution on {iid} is {oa['actions'].tolist()} before and {ob['actions'].tolist()} after the checkpoint round trip")
        # baseline state
        if hasattr(model, "baseline"):
            ba, bb = model.baseline, loaded.baseline
            sa, sb = ba.state_dict(), bb.state_dict()
            bad = [k for k in sa if k not in sb or not torch.equal(sa[k], sb[k])]
            if bad:
                p.violation(sig("checkpoint", cfg, "baseline_weights", algo), rec, f"{algo}: baseline tensors {bad[:3]} differ after the checkpoint round trip")
            for attr in ("v", "alpha"):
                for holder_a, holder_b in ((ba, bb), (getattr(ba, "warmup_baseline", None), getattr(bb, "warmup_baseline", None))):
                    if holder_a is not None and hasattr(holder_a, attr):
                        va, vb = getattr(holder_a, attr), getattr(holder_b, attr, None)
                        same = (va is None and vb is None) or (va is not None and vb is not None and abs(float(va) - float(vb)) < 1e-7)
                        if not same:
                            p.add(baseline_scalar_state_not_restored=1)
                            p.note(f"{algo}: baseline attribute `{attr}` is {va} before and {vb} after load_from_checkpoint (python attributes of baselines are not part of the state_dict; reported as information, the property speaks about solutions and rewards)")
        if hasattr(model, "critic"):
            sa, sb = model.critic.state_dict(), loaded.critic.state_dict()
            bad = [k for k in sa if k not in sb or not torch.equal(sa[k], sb[k])]
            if bad:
                p.violation(sig("checkpoint", cfg, "critic_weights", algo), rec, f"{algo}: critic parameters {bad[:3]} differ after the checkpoint round trip")
        p.outcome(cfg)
    except Exception as e:  # noqa: BLE001
        import traceback

        p.violation(sig("checkpoint", cfg, f"crash:{type(e).__name__}", algo), rec, f"{algo}: checkpoint round trip failed: {type(e).__name__}: {str(e)[:160]} @ {traceback.format_exc().splitlines()[-3][:120]}")
    finally:
        shutil.rmtree(d, ignore_errors=True)
    p.sample(dict(part="checkpoint", algorithm=algo, epochs=steps), cap=1)
    return p


def unit(item):
    return dict(env=unit_env, dataset=unit_dataset, parser=unit_parser, ckpt=unit_ckpt)[item[0]](item)


ENV_KEYS = ["tsp", "atsp", "cvrp", "cvrptw", "sdvrp", "svrp", "op:dist", "pctsp", "spctsp", "pdp", "mtsp:minmax", "mdcpdp:minsum:close:D1", "mtvrp:cvrp", "mtvrp:ovrpbltw", "smtwtp", "fjsp:mask", "fjsp:wait", "jssp:mask", "ffsp:flat", "flp", "mcp", "dpp", "mdpp"]


def main(tier):
    rep = Report(PID, tier, rule="one case = one (artifact, round trip) pair: an instance through npz / text files, an environment through deepcopy / pickle, a generated dataset file through the environment's loader, a model through a training checkpoint; instances and environments are compared by lock-step bisimulation over all action sequences; distinct = distinct (kind, environment/algorithm, instance/config)")
    rep.assumptions = [
        "generated dataset files exist only for the sizes in the generator script's tables (10 / 20 nodes): there the comparison is content equality plus two extreme complete schedules and the shipped checker",
        "checkpoints: tiny attention-model policy on TSP-4, 0 or 1 short training epochs on CPU; python-attribute state of baselines that is not in the state_dict is reported as information",
        "Solomon-file loading needs a download and is not covered",
    ]
    seed = seed_from_env()
    items = [("env", k, tier, seed) for k in ENV_KEYS]
    for name in GEN_PROBLEMS:
        for size in (1, 2, 3):
            items.append(("dataset", name, size, tier, seed))
    for k in ("fjsp:mask", "jssp:mask"):
        items.append(("parser", k, tier, seed))
    algos = ["reinforce:no", "reinforce:exponential", "reinforce:rollout", "reinforce:critic", "pomo", "a2c", "ppo", "amppo:heads4"]
    for a in algos:
        for steps in (0, 1):
            items.append(("ckpt", a, steps, tier, seed))
    only = os.environ.get("VERIF_ONLY")
    if only:
        items = [i for i in items if only in str(i)]
    rep.merge_all(pmap(unit, items))
    shutil.rmtree(SCRATCH, ignore_errors=True)
    return rep.finish()


def replay(rec):
    k = rec["kind"]
    if k == "env":
        spec = ALL_SPECS[rec["spec"]]
        spec._inst_cache[("quick", 0)] = [(rec["instance_id"], rec["instance"])]
        p = unit(("env", rec["spec"], "quick", 0))
    elif k == "dataset":
        p = unit(("dataset", rec["name"], rec["size"], "quick", rec.get("seed", 0)))
    elif k == "parser":
        spec = ALL_SPECS[rec["spec"]]
        spec._inst_cache[("quick", 0)] = [(rec["instance_id"], rec["instance"])]
        p = unit(("parser", rec["spec"], "quick", 0))
    else:
        p = unit(("ckpt", rec["algo"], rec["steps"], "quick", 0))
    shutil.rmtree(SCRATCH, ignore_errors=True)
    return bool(p.violations), "; ".join(v["msg"] for v in p.violations[:2]) or "round trip preserves the artifact"
