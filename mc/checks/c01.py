"""C01 — mask-confined episodes always yield feasible routing solutions.

E1 tree mode: for every routing environment x alphabet instance, ALL action sequences admitted by
the mask are executed on the real env.step (batched frontier) until the row reports done; every
complete sequence is judged by the independent oracle (mc/oracles/routing.py).  Float constraints
use the MAY side of the tolerance band, capacity / prize are exact on lattice instances.
"""
from __future__ import annotations

from .. import explore as E
from ..core import Partial, Report, pmap, seed_from_env
from ..oracles import routing as O
from ..routing import SPECS
from ..rtree import sig, solo_confirm, explore_instance, solo_validate, trace_replay_record, unit_instances, units

PID = "C01"


def judge(spec, inst, actions):
    return O.check(spec.kind, spec.oracle_inst(inst), actions, spec.oracle_cfg(inst))


def unit(item):
    spec, insts = unit_instances(item)
    tier = item[1]
    p = Partial()
    for iid, inst in insts:
        env, td0, tree = explore_instance(spec, inst, p)
        n_band = 0
        for h in tree.leaves:
            v = judge(spec, inst, h)
            p.add(evaluations=1)
            if v.band:
                n_band += 1
            p.outcome(f"{spec.key}|{sorted(set(b.split(':')[0] for b in v.band))}|{v.may}")
            if not v.may:
                sc = solo_confirm(spec, inst, h)
                if not (sc["admitted"] and sc["done_at"] == len(h)):
                    p.add(batch_leaks=1)
                    p.note(f"{spec.key} {iid}: path {list(h)} exists in the batched frontier but not in a solo run: batch leak, reported under C04")
                    continue
                trig = v.hard[0].split(":")[0]
                p.violation(
                    sig(PID, spec, "infeasible_solution", trig),
                    trace_replay_record(spec, iid, inst, h, oracle=repr(v)),
                    f"{spec.key} instance {iid}: mask-admitted episode {list(h)} is infeasible: {v.hard}",
                )
        p.add(distinct_count=len(tree.leaves), in_band=n_band)
        if tree.leaves:
            p.sample(dict(env=spec.key, instance=iid, actions=list(tree.leaves[len(tree.leaves) // 2]), leaves=len(tree.leaves)), cap=1)
        # conformance of the batched exploration with plain solo stepping
        bad = solo_validate(spec, env, td0, tree, p, k=6 if tier == "quick" else 16)
        for b in bad:
            p.note(f"{spec.key} {iid}: batched frontier and solo stepping disagree at {b} (reported under C04)")
            p.add(solo_mismatch=1)
    return p


FOREIGN = ("tsp", "cvrp", "cvrptw", "sdvrp", "op:dist", "svrp")


def foreign_env(spec, inst, delta):
    """an environment object configured (generator size) for another instance size than `inst` - how instances of a
    loaded data set meet an environment that was built for its default size"""
    n = len(inst["locs"])
    return spec.cls(generator_params=spec.gen_params({"locs": [0] * max(2, n + delta)}), **spec.env_kwargs)


def unit_foreign(item):
    """Hand-supplied / loaded instances whose size differs from the size the environment's generator was configured for:
    these environments take every size from the instance itself (the repository's own meta-learning test relies on it
    for TSP), so mask-confined episodes must be feasible there too."""
    _, key, tier, seed = item
    spec = SPECS[key]
    p = Partial()
    insts = spec.instances("quick", seed)
    insts = [insts[i] for i in E.pick_indices(len(insts), 40 if tier == "quick" else 200)]
    for iid, inst in insts:
        for delta in (-1, 2):
            env = foreign_env(spec, inst, delta)
            tree = E.explore(env, spec.td(inst), keep_nodes=False, max_states=100_000)
            p.add(states=tree.states, transitions=tree.transitions, leaves=len(tree.leaves), trees=1, distinct_count=len(tree.leaves))
            if tree.capped:
                p.add(caps_hit=1)
            for h in tree.leaves:
                v = judge(spec, inst, h)
                p.add(evaluations=1)
                if not v.may:
                    p.violation(
                        sig(PID, spec, "infeasible_solution", f"foreign_size_env|{v.hard[0].split(':')[0]}"),
                        dict(kind="foreign", spec=spec.key, instance_id=iid, instance=inst, actions=list(h), delta=delta),
                        f"{spec.key} instance {iid} in an environment configured for {len(inst['locs']) + delta} nodes: mask-admitted episode {list(h)} is infeasible: {v.hard}",
                    )
                    break
            p.outcome(f"{spec.key}|foreign|{delta}")
    return p


def dispatch(item):
    return unit_foreign(item) if item[0] == "foreign" else unit(item)


def main(tier):
    rep = Report(PID, tier, rule="one case = one complete mask-admitted action sequence of one instance (all sequences of every alphabet instance are enumerated); distinct = distinct (environment, instance, sequence); all are non-trivial (each is a full episode judged by the oracle)")
    rep.assumptions = [
        "instances outside the alphabets (sizes above the bound, other coordinates/demands) are not covered",
        "float constraints (time windows, length limits) are judged with a +1e-4 band; capacity and prize are exact on lattice instances",
        "the batched frontier relies on batch independence (C04); a stated number of paths per tree is re-executed solo",
    ]
    # C01 is cheap: the quick tier already explores the "thorough" alphabets (n<=5-6), the thorough tier the "deep" ones
    alph = "thorough" if tier == "quick" else "deep"
    items = units(alph, seed_from_env())
    rep.extra["alphabet"] = alph
    import os

    only = os.environ.get("VERIF_ONLY")
    foreign = [("foreign", k, tier, seed_from_env()) for k in FOREIGN if not only or only in k]
    rep.merge_all(pmap(dispatch, items + foreign))
    rep.extra["environments"] = sorted({i[0] for i in items})
    return rep.finish()


def replay(rec):
    spec = SPECS[rec["spec"]]
    inst = rec["instance"]
    env = spec.env(inst) if rec.get("kind") != "foreign" else foreign_env(spec, inst, rec["delta"])
    td, masks, dones = E.run_solo(env, spec.td(inst), rec["actions"])
    admitted = all(masks[t][a] for t, a in enumerate(rec["actions"]))
    v = judge(spec, inst, rec["actions"])
    text = f"solo replay: all actions admitted by the mask={admitted}, done={dones[-1]}, oracle={v}"
    return (admitted and dones[-1] and not v.may), text
