"""C12 — replicated rollouts (multi-start, sampling, augmentation) keep their instance.

(a) E5 grid on the real batchify / unbatchify / unbatchify_and_gather: every B in 1..4, every factor k in 1..4, every
    nesting (a,s) and (r,a,s) with entries in 1..3, tensors of rank 1-3 and TensorDicts whose elements encode
    (row, position): row r of the expansion must be instance r mod B, expansion followed by its inverse is the
    identity, gather picks exactly the indexed replica.
(b) start-node rules of every environment (select_start_nodes / get_num_starts incl. PDP, MTVRP, FLP, MCP, FFSP,
    FJSP via sample_n_random_actions under the RNG seam) for B <= 3 stackable alphabet instances and k <= n+1:
    forced starts must be feasible under the reset mask and pairwise distinct per instance whenever the instance has
    at least k feasible starts; layout: entry i*B + b belongs to instance b.
(c) E2 on the policy: multistart_greedy / multistart_sampling / multi-sample decoding with select_best on and off
    on mixed batches: every output row r is re-executed solo on instance r mod B (feasible, same reward, same
    log-likelihood through evaluate mode); with best-selection each instance gets the maximum reward among its own
    k rollouts together with exactly that rollout's actions and log-likelihood.
"""
from __future__ import annotations

import itertools
import os

import torch
from tensordict import TensorDict

from .. import explore as E
from ..core import Partial, Report, pmap, seed_from_env
from ..policies import make
from ..registry import ALL_SPECS
from ..seam import Seam, explore

PID = "C12"


def sig(env, config, observable, trigger):
    return dict(property=PID, env=env, config=config, observable=observable, trigger=trigger)


# ------------------------------------------------------------------------------------------- (a) ops grid


def tagged(B, rank):
    shape = [B] + [3, 2][: rank - 1]
    x = torch.arange(int(torch.tensor(shape).prod())).reshape(shape).float()
    return x + 1000.0 * torch.arange(B).reshape([B] + [1] * (rank - 1))


def unit_ops(item):
    from rl4co.utils.ops import batchify, unbatchify, unbatchify_and_gather

    p = Partial()
    shapes = [(k,) for k in range(1, 5)] + list(itertools.product(range(1, 4), repeat=2)) + list(itertools.product(range(1, 4), repeat=3))
    for B in range(1, 5):
        for shp in shapes:
            k = 1
            for s in shp:
                k *= s
            arg = shp[0] if len(shp) == 1 else shp
            for rank in (1, 2, 3):
                for as_td in (False, True):
                    x = tagged(B, rank)
                    obj = TensorDict(dict(a=x, b=(x * 2).long()), batch_size=[B]) if as_td else x
                    p.add(states=1, evaluations=1, transitions=3)
                    if B > 1 and k > 1:
                        p.add(distinct_count=1)
                    rec = dict(kind="ops", B=B, shape=list(shp), rank=rank, tensordict=as_td)
                    cfg = f"shape={list(shp)}"
                    try:
                        y = batchify(obj, arg)
                        ya = y["a"] if as_td else y
                        if ya.shape[0] != B * k or any(not torch.equal(ya[r], x[r % B]) for r in range(B * k)):
                            p.violation(sig("batchify", cfg, "row_identity", f"B={B}"), rec, f"batchify(B={B}, {arg}, rank {rank}, tensordict={as_td}): row r is not instance r mod B")
                            continue
                        z = unbatchify(y, arg)
                        za = z["a"] if as_td else z
                        want_shape = (B, *shp) + tuple(x.shape[1:])
                        # factors equal to ... are all > 0 here, so every factor adds a dimension
                        if tuple(za.shape) != want_shape:
                            p.violation(sig("unbatchify", cfg, "shape", f"B={B}"), rec, f"unbatchify(batchify(x)) has shape {tuple(za.shape)}, expected {want_shape}")
                            continue
                        flat = za.reshape(B, k, *x.shape[1:])
                        if any(not torch.equal(flat[b, j], x[b]) for b in range(B) for j in range(k)):
                            p.violation(sig("unbatchify", cfg, "inverse", f"B={B}"), rec, f"unbatchify(batchify(x, {arg}), {arg}) is not k copies of x per instance (B={B}, rank {rank}, tensordict={as_td})")
                        # distinguishable replicas: tag replica index, then gather one of them
                        if len(shp) == 1 and not as_td:
                            yy = ya + 0.5 * torch.arange(B * k).reshape([B * k] + [1] * (rank - 1)).div(B, rounding_mode="floor")
                            for pick in range(k):
                                idx = torch.full((B,), pick, dtype=torch.long)
                                g = unbatchify_and_gather(yy, idx, k)
                                if g.shape[0] != B or any(not torch.equal(g[b], yy[pick * B + b]) for b in range(B)):
                                    p.violation(sig("unbatchify_and_gather", cfg, "gather", f"B={B}"), rec, f"unbatchify_and_gather(x, idx={pick}, n={k}) does not return replica {pick} of each instance (B={B}, rank {rank})")
                                    break
                            # mixed indices
                            idx = torch.arange(B) % k
                            g = unbatchify_and_gather(yy, idx, k)
                            if any(not torch.equal(g[b], yy[int(idx[b]) * B + b]) for b in range(B)):
                                p.violation(sig("unbatchify_and_gather", cfg, "gather", f"B={B}|mixed_idx"), rec, "unbatchify_and_gather with per-instance indices mixes instances")
                        p.outcome(f"ops|{len(shp)}|{rank}|{as_td}")
                    except Exception as e:  # noqa: BLE001
                        p.violation(sig("batchify", cfg, f"crash:{type(e).__name__}", f"B={B}"), rec, f"batchify/unbatchify crashed for B={B}, shape {arg}, rank {rank}, tensordict={as_td}: {type(e).__name__}: {str(e)[:80]}")
    # nested replication as the library uses it (SymNCO / POMO evaluation): a batch is first replicated A-fold (augmentation
    # copies, row a*B+b), the result S-fold (multi-start); the outputs are regrouped with unbatchify(x, (A, S)).  Every
    # entry [b, a, s] of the regrouped tensor must be the row of instance b, copy a, start s.
    for B in range(1, 4):
        for A in range(1, 4):
            for S in range(1, 4):
                base = torch.arange(B).float()
                y1 = batchify(base, A)
                y1 = y1 + 100.0 * torch.arange(B * A).div(B, rounding_mode="floor")  # tag the augmentation copy
                y2 = batchify(y1, S)
                y2 = y2 + 10000.0 * torch.arange(B * A * S).div(B * A, rounding_mode="floor")  # tag the start
                p.add(states=1, evaluations=1, transitions=3, distinct_count=1 if (A > 1 and S > 1) else 0)
                rec = dict(kind="ops", B=B, shape=[A, S], rank=1, tensordict=False, nested=True)
                try:
                    z = unbatchify(y2, (A, S))
                    want = torch.tensor([[[b + 100.0 * a + 10000.0 * s_ for s_ in range(S)] for a in range(A)] for b in range(B)])
                    if tuple(z.shape) != (B, A, S) or not torch.equal(z, want):
                        p.violation(sig("unbatchify", f"shape={[A, S]}", "nested_layout", f"B={B}"), rec, f"unbatchify(x, ({A}, {S})) of a batch replicated {A}-fold and then {S}-fold (B={B}): entry [b, a, s] is not (instance b, copy a, start s): got {z.tolist()}, expected {want.tolist()}")
                except Exception as e:  # noqa: BLE001
                    p.violation(sig("unbatchify", f"shape={[A, S]}", f"crash:{type(e).__name__}", f"B={B}"), rec, f"unbatchify(x, ({A}, {S})) crashed: {type(e).__name__}: {str(e)[:80]}")
    p.sample(dict(part="ops", B=3, shape=[2, 3], rank=2), cap=1)
    return p


# ------------------------------------------------------------------------------------------- (b) start nodes


def shape_sig(td):
    return E.group_sig(td)


def unit_starts(item):
    _, skey, tier, seed = item
    spec = ALL_SPECS[skey]
    p = Partial()
    insts = spec.instances("quick", seed)
    groups = {}
    for iid, inst in insts:
        td = spec.td(inst)
        groups.setdefault(shape_sig(td), []).append((iid, inst, td))
    env_name = skey.partition(":")[0]
    for g in groups.values():
        g = [g[i] for i in E.pick_indices(len(g), 6 if tier == "quick" else 16)]
        env = spec.env(g[0][1])
        for B in (1, 2, 3):
            for lo in range(0, len(g) - B + 1, B):
                rows = g[lo : lo + B]
                tds = torch.cat([r[2] for r in rows], 0)
                td = env.reset(tds.clone())
                E._set_bs(env, B)
                mask = td["action_mask"].reshape(B, -1)
                n_act = mask.shape[1]
                try:
                    nstart = int(env.get_num_starts(td))
                except Exception as e:  # noqa: BLE001
                    p.violation(sig(env_name, skey, f"crash:{type(e).__name__}", "get_num_starts"), dict(kind="starts", spec=skey, instances=[dict(instance_id=r[0], instance=r[1]) for r in rows], k=0), f"{skey}: get_num_starts crashed: {type(e).__name__}: {str(e)[:80]}")
                    continue
                # candidate start set: the depot / wait / dummy action 0 is never a start node in environments that have one
                has_zero_special = env_name not in ("tsp", "atsp", "flp", "mcp")
                cand = [a for a in range(n_act) if not (has_zero_special and a == 0)]
                ks = {2, 3, min(nstart, n_act), min(nstart, n_act) + 1} if tier == "quick" else set(range(2, min(nstart, n_act) + 2))
                if env_name == "pdp":
                    ks |= {n_act - 1, n_act}  # as many starts as customers / nodes (what evaluate_policy uses)
                for k in sorted(ks):
                    if k < 2 or k > 8:  # num_starts == 1 never reaches select_start_nodes (multistart is off then)
                        continue

                    def run(seam):
                        tdr = env.reset(tds.clone())
                        E._set_bs(env, B)
                        try:
                            with seam.active():
                                return env.select_start_nodes(tdr, k)
                        except NotImplementedError as e:
                            return e
                        except Exception as e:  # noqa: BLE001
                            return e

                    n_exec = 0
                    for ch, sel, seam in explore(run, max_dev=1, limit=400):
                        n_exec += 1
                        p.add(states=1, transitions=max(1, len(ch)), evaluations=1)
                        rec = dict(kind="starts", spec=skey, instances=[dict(instance_id=r[0], instance=r[1]) for r in rows], k=k, choices=ch)
                        if isinstance(sel, NotImplementedError):
                            p.add(not_supported=1)
                            break
                        feas_counts = [sum(1 for a in cand if mask[b, a]) for b in range(B)]
                        if isinstance(sel, Exception) and min(feas_counts) < k and "multinomial" in str(sel):
                            p.add(fewer_feasible_than_k=1)  # nothing to sample from: outside the property's premise
                            break
                        if isinstance(sel, Exception):
                            p.violation(sig(env_name, skey.partition(":")[2], f"crash:{type(sel).__name__}", "select_start_nodes"), rec, f"{skey}: select_start_nodes(k={k}) for batch {[r[0] for r in rows]} crashed: {type(sel).__name__}: {str(sel)[:100]}")
                            break
                        sel = sel.reshape(-1).tolist()
                        if len(sel) != B * k:
                            p.violation(sig(env_name, skey.partition(":")[2], "layout", f"k={k}"), rec, f"{skey}: select_start_nodes(k={k}) returned {len(sel)} entries for batch size {B}")
                            break
                        p.case(f"{skey}|{[r[0] for r in rows]}|{k}|{ch}")
                        for b in range(B):
                            mine = [sel[i * B + b] for i in range(k)]
                            feas = [a for a in cand if mask[b, a]]
                            bad = [a for a in mine if not (0 <= a < n_act and mask[b, a])]
                            if len(feas) < k:
                                p.add(fewer_feasible_than_k=1)
                                # the property only promises distinct starts with at least k feasible ones.  PDP documents more:
                                # "only pickups can be selected" for ANY number of starts (the rule wraps around), and
                                # evaluate_policy asks for num_loc starts there - so feasibility is still judged for PDP
                                if env_name == "pdp" and feas and bad:
                                    p.violation(sig(env_name, skey.partition(":")[2], "infeasible_start", "k>feasible_starts"), rec, f"{skey}: instance {rows[b][0]}: asked for k={k} starts (pickups are {feas}) it is forced to start at {bad}, not a pickup (starts {mine})")
                                continue
                            if bad:
                                p.violation(sig(env_name, skey.partition(":")[2], "infeasible_start", "k<=feasible_starts"), rec, f"{skey}: instance {rows[b][0]} has {len(feas)} feasible first moves {feas} but is forced to start at {bad} (k={k}, starts {mine}, batch {[r[0] for r in rows]})")
                            elif len(set(mine)) != len(mine):
                                p.violation(sig(env_name, skey.partition(":")[2], "duplicate_start", "k<=feasible_starts"), rec, f"{skey}: instance {rows[b][0]} has {len(feas)} >= k={k} feasible first moves but its forced starts {mine} are not pairwise distinct (batch {[r[0] for r in rows]})")
                            p.outcome(f"{skey}|{len(feas) >= k}")
    p.sample(dict(part="start_nodes", env=skey, groups=len(groups)), cap=1)
    return p


def unit_starts_foreign(item):
    """MTVRP reads the instance size from the instance itself, so that instances of another size than the environment's
    generator was configured for (loaded data sets) can be decoded with multi-start: its start nodes must be feasible
    and distinct for such instances too.  (The generic rule of the other environments takes the size from the
    generator; for them this situation is outside the documented use and is not judged.)"""
    _, skey, tier, seed = item
    spec = ALL_SPECS[skey]
    p = Partial()
    env_name = skey.partition(":")[0]
    insts = spec.instances("quick", seed)
    groups = {}
    for iid, inst in insts:
        td = spec.td(inst)
        groups.setdefault(shape_sig(td), []).append((iid, inst, td))
    for g in groups.values():
        g = [g[i] for i in E.pick_indices(len(g), 4)]
        n = g[0][2]["locs"].shape[1] - 1
        for env_n in (n - 1, n + 2):
            if env_n < 2:
                continue
            env = spec.env({"locs": [0] * (env_n + 1)})
            for B in (1, 2):
                rows = g[:B]
                if len(rows) < B:
                    continue
                tds = torch.cat([r[2] for r in rows], 0)
                td = env.reset(tds.clone())
                mask = td["action_mask"].reshape(B, -1)
                for k in range(2, n + 1):
                    rec = dict(kind="starts_foreign", spec=skey, env_size=env_n, instances=[dict(instance_id=r[0], instance=r[1]) for r in rows], k=k)
                    try:
                        sel = env.select_start_nodes(env.reset(tds.clone()), k).reshape(-1).tolist()
                    except Exception as e:  # noqa: BLE001
                        p.violation(sig(env_name, skey.partition(":")[2], f"crash:{type(e).__name__}", "foreign_size_instance"), rec, f"{skey}: select_start_nodes(k={k}) on {n}-customer instances with an environment configured for {env_n} crashed: {type(e).__name__}: {str(e)[:100]}")
                        break
                    p.add(states=1, transitions=1, evaluations=B)
                    p.case(f"{skey}|foreign|{env_n}|{B}|{k}")
                    for b in range(B):
                        mine = [sel[i * B + b] for i in range(k)]
                        feas = [a for a in range(1, mask.shape[1]) if mask[b, a]]
                        if len(feas) < k:
                            continue
                        bad = [a for a in mine if not (0 < a < mask.shape[1] and mask[b, a])]
                        if bad or len(set(mine)) != len(mine):
                            p.violation(sig(env_name, skey.partition(":")[2], "infeasible_start" if bad else "duplicate_start", "foreign_size_instance"), rec, f"{skey}: instance {rows[b][0]} ({n} customers, {len(feas)} feasible first moves) decoded with an environment configured for {env_n} customers gets the forced starts {mine} (k={k})")
    return p


# ------------------------------------------------------------------------------------------- (c) policy multistart


def unit_policy(item):
    _, skey, tier, seed, wseed = item
    spec = ALL_SPECS[skey]
    p = Partial()
    insts = spec.instances("quick", seed)
    groups = {}
    for iid, inst in insts:
        td = spec.td(inst)
        groups.setdefault(shape_sig(td), []).append((iid, inst, td))
    g = max(groups.values(), key=len)
    g = [g[i] for i in E.pick_indices(len(g), 3)]
    env = spec.env(g[0][1])
    pol = make("am", env, wseed)
    env_name = skey.partition(":")[0]

    def solo_eval(b, acts):
        """(feasible, solution length, reward, per-step logp) of `acts` on instance b alone"""
        td0 = g[b][2]
        td, masks, dones = E.run_solo(env, td0, acts)
        ok = all(masks[t][a] for t, a in enumerate(acts)) and dones[-1]
        L = next(t for t, d in enumerate(dones) if d) if any(dones) else None
        if not ok:
            return ok, L, None, None
        r = float(env._get_reward(td, torch.tensor([acts])).reshape(-1)[0])
        with torch.no_grad(), Seam().active():
            o = pol(env.reset(td0.clone()), env, phase="test", actions=torch.tensor([acts]), return_sum_log_likelihood=False)
        return ok, L, r, o["log_likelihood"][0].tolist()

    for B in (2, 3):
        if len(g) < B:
            continue
        tds = torch.cat([x[2] for x in g[:B]], 0)
        for k in (2, 3):
            for dt, extra in (("multistart_greedy", dict(num_starts=k)), ("multistart_sampling", dict(num_starts=k)), ("sampling", dict(num_samples=k))):
                outs = {}
                for sb in (False, True):
                    td = env.reset(tds.clone())
                    E._set_bs(env, B * k)
                    try:
                        with torch.no_grad(), Seam().active():
                            outs[sb] = pol(td, env, phase="test", decode_type=dt, select_best=sb, **extra)
                    except Exception as e:  # noqa: BLE001
                        outs[sb] = e
                rec = dict(kind="policy", spec=skey, wseed=wseed, instances=[dict(instance_id=x[0], instance=x[1]) for x in g[:B]], k=k, decode_type=dt)
                if isinstance(outs[False], Exception):
                    # excusable only when the start-node rule itself cannot supply k feasible starts for some row
                    # (that is judged in part (b)); with enough feasible first moves a crash is a failed rollout
                    n_first = int(env.reset(tds.clone())["action_mask"].reshape(B, -1).sum(-1).min())
                    if (isinstance(outs[False], AssertionError) or "out of bounds" in str(outs[False])) and k > n_first - 1:
                        p.note(f"am x {skey}: {dt} k={k} B={B} not runnable ({type(outs[False]).__name__}: {str(outs[False])[:60]}): start-node rule, judged in part (b)")
                        continue
                    p.violation(sig(env_name, f"am|{skey.partition(':')[2]}", f"crash:{type(outs[False]).__name__}", dt), rec, f"am x {skey}: {dt} k={k} B={B} crashed: {type(outs[False]).__name__}: {str(outs[False])[:100]}")
                    continue
                o = outs[False]
                p.add(states=1, evaluations=B * k, transitions=int(o["actions"].numel()))
                p.case(f"{skey}|{B}|{k}|{dt}|{wseed}")
                skip = 1 if dt.startswith("multistart") else 0
                per_inst = {b: [] for b in range(B)}
                for r in range(B * k):
                    b = r % B
                    acts = o["actions"][r].tolist()
                    ok, L, rew, steps = solo_eval(b, acts)
                    p.add(traces_validated_against_impl=1)
                    if not ok:
                        # an infeasible forced start makes the whole rollout meaningless; that is part (b)'s finding
                        td_r = env.reset(g[b][2].clone())
                        if skip and not bool(td_r["action_mask"].reshape(-1)[acts[0]]):
                            p.add(infeasible_forced_starts=1)
                            continue
                        p.violation(sig(env_name, f"am|{skey.partition(':')[2]}", "row_instance", dt), rec, f"am x {skey}: output row {r} of {dt} (k={k}, B={B}) with actions {acts} is not a feasible episode of instance {g[b][0]} (= row mod B)")
                        continue
                    ll = float(o["log_likelihood"][r])
                    want = sum(steps[skip:])
                    if abs(float(o["reward"][r]) - rew) > 1e-5 * (1 + abs(rew)):
                        p.violation(sig(env_name, f"am|{skey.partition(':')[2]}", "reward", dt), rec, f"am x {skey}: row {r} of {dt}: reward {float(o['reward'][r])} but the actions {acts} score {rew} on instance {g[b][0]}")
                    if abs(ll - want) > 2e-4:
                        p.violation(sig(env_name, f"am|{skey.partition(':')[2]}", "log_likelihood", dt), rec, f"am x {skey}: row {r} of {dt}: log-likelihood {ll} but evaluate on instance {g[b][0]} gives {want} for {acts}")
                    per_inst[b].append((float(o["reward"][r]), acts, ll))
                ob = outs[True]
                if isinstance(ob, Exception):
                    p.violation(sig(env_name, f"am|{skey.partition(':')[2]}", f"crash:{type(ob).__name__}", f"{dt}|select_best"), rec, f"am x {skey}: {dt} with select_best crashed: {type(ob).__name__}: {str(ob)[:100]}")
                    continue
                for b in range(B):
                    if len(per_inst[b]) < k:
                        continue
                    best = max(x[0] for x in per_inst[b])
                    rb = float(ob["reward"][b])
                    ab = ob["actions"][b].tolist()
                    lb = float(ob["log_likelihood"][b])
                    cands = [x for x in per_inst[b] if abs(x[0] - best) <= 1e-6 * (1 + abs(best))]
                    if abs(rb - best) > 1e-5 * (1 + abs(best)):
                        p.violation(sig(env_name, f"am|{skey.partition(':')[2]}", "best_reward", dt), rec, f"am x {skey}: select_best returns reward {rb} for instance {g[b][0]}; maximum over its own {k} rollouts is {best}")
                    elif not any(ab == c[1] and abs(lb - c[2]) < 2e-4 for c in cands):
                        p.violation(sig(env_name, f"am|{skey.partition(':')[2]}", "best_actions", dt), rec, f"am x {skey}: select_best returns actions {ab} / log-likelihood {lb} for instance {g[b][0]}, which is not its best rollout {cands}")
                    p.outcome(f"{skey}|{dt}|best")
    p.sample(dict(part="policy", env=skey, instances=[x[0] for x in g]), cap=1)
    return p


def unit(item):
    return dict(ops=unit_ops, starts=unit_starts, policy=unit_policy, foreign=unit_starts_foreign)[item[0]](item)


START_ENVS = ["tsp", "atsp", "cvrp", "cvrptw", "sdvrp", "svrp", "op:dist", "pctsp", "spctsp", "pdp", "pdp:depot", "mtsp:minmax", "mdcpdp:minsum:close:D1", "mtvrp:cvrp", "mtvrp:vrptw", "mtvrp:ovrpbltw", "smtwtp", "flp", "mcp", "ffsp:flat", "fjsp:mask", "jssp:mask"]
POLICY_ENVS = ["tsp", "cvrp", "pdp", "mtvrp:cvrp", "sdvrp", "pctsp", "op:dist", "mtsp:minmax", "svrp", "cvrptw", "spctsp", "mtvrp:vrptw"]


def main(tier):
    rep = Report(PID, tier, rule="one case = (a) one (B, factor/nesting, rank, tensor|TensorDict) configuration of batchify/unbatchify/unbatchify_and_gather, (b) one (environment, batch of instances, k, RNG answer) call of select_start_nodes, (c) one (environment, batch, k, decode type) policy run with every output row re-executed solo; distinct = distinct configurations")
    rep.assumptions = [
        "environments are constructed with generator_params matching the instance size (the start-node rule reads env.generator.num_loc)",
        "start nodes are demanded feasible / distinct only for instances with at least k feasible first moves, as the property states",
        "get_best_actions is not used anywhere in the library and is not part of the property's mechanism: not judged",
    ]
    seed = seed_from_env()
    only = os.environ.get("VERIF_ONLY")
    items = [("ops",)]
    items += [("starts", k, tier, seed) for k in START_ENVS]
    items += [("foreign", k, tier, seed) for k in ALL_SPECS if k.startswith("mtvrp:") and (tier == "thorough" or k in ("mtvrp:cvrp", "mtvrp:vrptw", "mtvrp:ovrpbltw"))]
    items += [("policy", k, tier, seed, ws) for k in POLICY_ENVS for ws in ((0,) if tier == "quick" else (0, 1))]
    if only:
        items = [i for i in items if only in str(i)]
    rep.merge_all(pmap(unit, items))
    return rep.finish()


def replay(rec):
    if rec["kind"] == "ops":
        p = unit_ops(("ops",))
        return bool(p.violations), "; ".join(v["msg"] for v in p.violations[:2]) or "ops grid holds"
    if rec["kind"] == "starts_foreign":
        p = unit_starts_foreign(("foreign", rec["spec"], "quick", 0))
        return bool(p.violations), "; ".join(v["msg"] for v in p.violations[:2]) or "start nodes are feasible and distinct for foreign-size instances"
    spec = ALL_SPECS[rec["spec"]]
    rows = [(d["instance_id"], d["instance"], spec.td(d["instance"])) for d in rec["instances"]]
    env = spec.env(rows[0][1])
    if rec["kind"] == "starts":
        B, k = len(rows), rec["k"]
        tds = torch.cat([r[2] for r in rows], 0)
        td = env.reset(tds.clone())
        E._set_bs(env, B)
        mask = td["action_mask"].reshape(B, -1)
        try:
            with Seam(rec.get("choices", [])).active():
                sel = env.select_start_nodes(env.reset(tds.clone()), k).reshape(-1).tolist()
        except Exception as e:  # noqa: BLE001
            return True, f"select_start_nodes crashed: {type(e).__name__}: {e}"
        bad = []
        for b in range(B):
            mine = [sel[i * B + b] for i in range(k)]
            zero_special = rec["spec"].partition(":")[0] not in ("tsp", "atsp", "flp", "mcp")
            feas = int(mask[b, 1:].sum()) if zero_special else int(mask[b].sum())
            if feas >= k and (any(not mask[b, a] for a in mine) or len(set(mine)) != k):
                bad.append((rows[b][0], mine, feas))
        return bool(bad), f"starts {sel}; offending instances {bad}"
    import mc.checks.c12 as me

    p = unit_policy(("policy", rec["spec"], "quick", 0, rec["wseed"]))
    return bool(p.violations), "; ".join(v["msg"] for v in p.violations[:2]) or "rows keep their instance"
