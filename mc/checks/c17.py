"""C17 — datasets, collation and baseline wrapping preserve instance identity and order.

Complete enumeration (E5 grid x E3 choice).  Every configuration is one JSON-serialisable dict `cfg`
that `run_config(cfg)` executes from scratch (fresh dataset, fresh loader), so a replay file re-runs
exactly ONE configuration.

kind="loader"   dataset class in {TensorDictDataset, FastTdDataset, TensorDictDatasetFastGeneration}
                x wrapping mode in {plain, add_key("extra", v), ExtraKeyDataset(ds, v[, key_name])}
                x field set (tagged TensorDicts with different dtypes / shapes)
                x N in 1..Nmax x batch size in 1..N+1
                x loader in {torch DataLoader(collate_fn=dataset.collate_fn),
                             RL4COLitModule._dataloader_single, RL4COLitModule.train_dataloader}
                x shuffle off (2 epochs) / on with EVERY permutation forced at the `torch.randperm` seam
                  (N! permutations, all of them up to Nmax), one run with the real randperm recorded,
                  and one 3-epoch run over the same loader.
kind="lit_dict" RL4COLitModule.val_dataloader over a dict of two datasets: loaders come back in dict
                order, each returning its own instances.
kind="rollout"  RolloutBaseline.setup (env.dataset + rollout) / rollout(dataset=None) / rollout(dataset=ds)
                with a marker policy (reward = instance tag) or a fixed-tour policy (reward = env reward):
                rewards come back in dataset order for evaluation batch sizes 1..N+1.
kind="wrap"     RolloutBaseline.wrap_dataset(env.dataset(N)) (optionally wrapped a second time after the
                baseline policy changed), read back through a DataLoader for batch sizes 1..N+1, shuffle
                off / on with every permutation: row r is instance perm[r] and carries `extra` = reward of
                the baseline policy on THAT instance alone.
kind="reinforce" the same through REINFORCE(baseline="rollout"): setup(), WarmupBaseline.epoch_callback,
                on_train_epoch_end(), train_dataloader(); plus val/test loaders.

Oracle (exactly the property): concatenated batches == original instances in the (forced) order: same key
set, dtypes, shapes, values; `extra` of a row == extra / solo baseline reward of the instance in that row.
"""
from __future__ import annotations

import itertools
import os
import types

import torch
import torch.nn as nn
from tensordict import TensorDict
from torch.utils.data import DataLoader

from ..core import Partial, Report, pmap, seed_from_env

PID = "C17"


class SeamError(RuntimeError):
    """the harness does not own the randomness it claims to own (never reported as a violation)"""


# --------------------------------------------------------------------------------------------------
# randomness seam: DataLoader(shuffle=True) -> RandomSampler.__iter__ -> torch.randperm(n, generator=g)
# --------------------------------------------------------------------------------------------------
class PermSeam:
    """Scoped replacement of `torch.randperm`.

    perm=list  -> every call returns that permutation (the harness decides the order);
    perm=None  -> pass-through to the real randperm, recording what was drawn.
    `calls` records (n, returned list) so the caller can assert the seam was really hit."""

    def __init__(self, perm=None):
        self.perm = None if perm is None else list(perm)
        self.calls = []
        self._orig = None

    def __enter__(self):
        self._orig = torch.randperm
        torch.randperm = self
        return self

    def __exit__(self, *exc):
        torch.randperm = self._orig
        return False

    def __call__(self, n, *args, generator=None, dtype=torch.int64, out=None, **kw):
        n = int(n)
        if self.perm is None:
            r = self._orig(n, *args, generator=generator, dtype=dtype, **kw)
        else:
            if n != len(self.perm) or args:
                raise SeamError(f"torch.randperm({n}, {args}) called while the harness forces a permutation of {len(self.perm)}")
            r = torch.tensor(self.perm, dtype=dtype)
        self.calls.append((n, r.tolist()))
        return r


# --------------------------------------------------------------------------------------------------
# tagged instance sets
# --------------------------------------------------------------------------------------------------
def _num(i, shape, dtype, base=100, salt=0):
    """value = i*base + salt + position  (instance i visible in every entry)"""
    n = len(i)
    cnt = 1
    for s in shape:
        cnt *= s
    pos = torch.arange(cnt, dtype=torch.int64).reshape(shape) if shape else torch.zeros((), dtype=torch.int64)
    v = i.reshape([n] + [1] * len(shape)) * base + salt + pos
    return v.to(dtype)


def _bits(i, width):
    return ((i[:, None] + 1) >> torch.arange(width)) % 2 == 1


def make_fields(name, N, offset=0):
    i = torch.arange(N, dtype=torch.int64) + offset
    if name == "mixed":
        d = {
            "a": _num(i, (3, 2), torch.float32),
            "b": _num(i, (), torch.int64, salt=7),
            "c": _bits(i, 4),
            "d": _num(i, (), torch.float32, salt=9) + 0.5,
            "e": _num(i, (2, 2, 2), torch.float32, salt=20),
        }
    elif name == "locs":
        d = {"locs": _num(i, (3, 2), torch.float32) / 1024.0}
    elif name == "scalar":
        d = {"b": _num(i, (), torch.int64, salt=3)}
    elif name == "wide":
        d = {
            "f64": _num(i, (2,), torch.float64) + 0.125,
            "i32": _num(i, (1,), torch.int32),
            "u8": _num(i, (), torch.uint8, base=10),
            "i16": _num(i, (2,), torch.int16),
            "f16": _num(i, (2,), torch.float16),
            "flag": (i % 2 == 0),
            "empty": torch.zeros((N, 0, 2), dtype=torch.int64),
            "c64": torch.complex(_num(i, (2,), torch.float32), _num(i, (2,), torch.float32, salt=50)),
        }
    else:
        raise KeyError(name)
    return d


def make_extra(kind, N, offset=0):
    i = torch.arange(N, dtype=torch.int64) + offset
    if kind == "f32":
        return (1000 + 7 * i).float() + 0.25
    if kind == "f32col":
        return ((2000 + 7 * i).float() + 0.25)[:, None]
    if kind == "i64":
        return 3000 + 7 * i
    raise KeyError(kind)


def dataset_classes():
    from rl4co.data import dataset as D

    return {
        "TensorDictDataset": D.TensorDictDataset,
        "FastTdDataset": D.FastTdDataset,
        "TensorDictDatasetFastGeneration": D.TensorDictDatasetFastGeneration,
    }


def build_dataset(cls_name, mode, fields, extra_kind, N, offset=0):
    """-> (dataset, ref dict name->tensor incl. the extra key, extra key name or None). The reference is
    built from independent tensors: the dataset receives clones, so in-place edits cannot hide."""
    from rl4co.data.dataset import ExtraKeyDataset

    ref = make_fields(fields, N, offset)
    td = TensorDict({k: v.clone() for k, v in ref.items()}, batch_size=[N])
    ds = dataset_classes()[cls_name](td)
    key = None
    if mode != "plain":
        ex = make_extra(extra_kind, N, offset)
        if mode == "add_key":
            key = "extra"
            ds = ds.add_key(key, ex.clone())
        elif mode == "ekd":
            key = "extra"
            ds = ExtraKeyDataset(ds, ex.clone())
        elif mode == "ekd_named":
            key = "bl_val"
            ds = ExtraKeyDataset(ds, ex.clone(), key_name=key)
        else:
            raise KeyError(mode)
        ref = dict(ref)
        ref[key] = ex
    return ds, ref, key


# --------------------------------------------------------------------------------------------------
# the judge
# --------------------------------------------------------------------------------------------------
def _lead(batch):
    for v in batch.values():
        return int(v.shape[0]) if hasattr(v, "shape") and v.dim() > 0 else None
    return None


def judge(batches, ref, order, extra_key, batch_size, atol=0.0):
    """Compare the batches read from a loader with the reference instances `ref` (name -> [N,...]) in the
    expected `order` (list of instance indices).  Returns a list of (observable, text)."""
    out = []
    N = len(order)
    want_keys = set(ref.keys())
    for bi, b in enumerate(batches):
        if not hasattr(b, "keys") or not hasattr(b, "__getitem__"):
            return [("keys", f"batch {bi} is a {type(b).__name__}, not a keyed collection of tensors")]
    for bi, b in enumerate(batches):
        got = set(b.keys())
        if got != want_keys:
            out.append(("keys", f"batch {bi} has keys {sorted(got)} instead of {sorted(want_keys)}"))
            break
    # split into batches (full batches then the partial one) and declared batch_size
    sizes = [_lead(b) for b in batches]
    want_sizes = [batch_size] * (N // batch_size) + ([N % batch_size] if N % batch_size else [])
    if sizes != want_sizes:
        out.append(("shape", f"batches have {sizes} rows instead of {want_sizes} (N={N}, batch_size={batch_size})"))
    for bi, b in enumerate(batches):
        bs = getattr(b, "batch_size", None)
        if bs is not None and (len(bs) != 1 or int(bs[0]) != sizes[bi]):
            out.append(("shape", f"batch {bi} declares batch_size {tuple(bs)} but its fields have {sizes[bi]} rows"))
            break
    if not batches:
        return out
    cat = {}
    for k in sorted(want_keys):
        if not all(k in b.keys() for b in batches):
            continue
        parts = [b[k] for b in batches]
        dts = {p.dtype for p in parts}
        if dts != {ref[k].dtype}:
            out.append(("dtype", f"field '{k}' comes back as {sorted(str(d) for d in dts)} instead of {ref[k].dtype}"))
            continue
        trail = {tuple(p.shape[1:]) for p in parts}
        if trail != {tuple(ref[k].shape[1:])} or any(p.dim() != ref[k].dim() for p in parts):
            out.append(("shape", f"field '{k}' comes back with per-batch shapes {[tuple(p.shape) for p in parts]}; per-instance shape is {tuple(ref[k].shape[1:])}"))
            continue
        cat[k] = torch.cat(parts, 0)
    id_keys = [k for k in cat if k != extra_key]
    if not id_keys:
        return out
    R = min(int(cat[k].shape[0]) for k in cat)
    if R != N and sizes == want_sizes:
        out.append(("shape", f"{R} rows come back instead of {N}"))

    def same(x, y):
        if atol and x.is_floating_point():
            return bool(torch.allclose(x, y, rtol=0.0, atol=atol))
        return bool(torch.equal(x, y))

    ident = []
    for r in range(R):
        m = [j for j in range(ref[id_keys[0]].shape[0]) if all(same(cat[k][r], ref[k][j]) for k in id_keys)]
        ident.append(m[0] if len(m) == 1 else None)
    exp = list(order[:R])
    if any(j is None for j in ident):
        r = ident.index(None)
        k_bad = next((k for k in id_keys if r < len(exp) and not same(cat[k][r], ref[k][exp[r]])), id_keys[0])
        out.append(("values", f"row {r} matches no original instance: field '{k_bad}' = {cat[k_bad][r].tolist()} (expected instance {exp[r] if r < len(exp) else '?'}: {ref[k_bad][exp[r]].tolist() if r < len(exp) else '?'})"))
    elif ident != exp:
        out.append(("order", f"instances come back in order {ident} instead of {exp}"))
    if extra_key is not None and extra_key in cat:
        for r in range(R):
            j = ident[r] if ident[r] is not None else (exp[r] if r < len(exp) else None)
            if j is None:
                continue
            if not same(cat[extra_key][r], ref[extra_key][j]):
                owner = [q for q in range(ref[extra_key].shape[0]) if same(cat[extra_key][r], ref[extra_key][q])]
                out.append(("extra", f"row {r} holds instance {j} but '{extra_key}' = {cat[extra_key][r].tolist()} (belongs to instance {owner[0] if owner else 'none'}; instance {j} has {ref[extra_key][j].tolist()})"))
                break
    return out


def judge_vector(vals, want, what, atol):
    """rewards returned by rollout vs per-instance solo rewards `want` ([N])"""
    out = []
    vals = torch.as_tensor(vals)
    if tuple(vals.shape) != tuple(want.shape):
        return [("shape", f"{what} has shape {tuple(vals.shape)} instead of {tuple(want.shape)}")]
    if vals.dtype != want.dtype:
        out.append(("dtype", f"{what} has dtype {vals.dtype} instead of {want.dtype}"))
        vals = vals.to(want.dtype)
    if torch.allclose(vals, want, rtol=0.0, atol=atol):
        return out
    if torch.allclose(vals.sort().values, want.sort().values, rtol=0.0, atol=atol):
        perm = [int((want - v).abs().argmin()) for v in vals]
        out.append(("order", f"{what} = {vals.tolist()} are the rewards of instances {perm}, not of 0..{len(want) - 1} in order ({want.tolist()})"))
    else:
        out.append(("values", f"{what} = {vals.tolist()} instead of the per-instance rewards {want.tolist()}"))
    return out


# --------------------------------------------------------------------------------------------------
# reading a loader under the seam
# --------------------------------------------------------------------------------------------------
def read_epochs(make_loader, cfg, N):
    """Iterate the loader once per epoch.  Returns list of (order, batches, seam_calls)."""
    shuffle = cfg["shuffle"]
    res = []
    dl = make_loader()
    if not shuffle:
        for _ in range(int(cfg.get("epochs", 1))):
            with PermSeam(None) as seam:
                batches = list(dl)
            res.append((list(range(N)), batches, len(seam.calls)))
        return res
    perms = cfg["perms"]
    if perms == "recorded":
        torch.manual_seed(int(cfg.get("seed", 0)))
        with PermSeam(None) as seam:
            batches = list(dl)
        draws = [c[1] for c in seam.calls if c[0] == N]
        if not draws:
            raise SeamError("shuffle=True but torch.randperm was never called: the shuffle order is not owned")
        res.append((draws[0], batches, len(seam.calls)))
        cfg["_recorded"] = draws
        return res
    for perm in perms:
        with PermSeam(perm) as seam:
            batches = list(dl)
        if not seam.calls:
            raise SeamError("shuffle=True but torch.randperm was never called: the shuffle order is not owned")
        res.append((list(perm), batches, len(seam.calls)))
    return res


_CACHE = {}


def lit_module():
    """one real RL4COLitModule per process (only `dataloader_num_workers` etc. are read by the loader code)"""
    if "lit" not in _CACHE:
        from rl4co.models.rl.common.base import RL4COLitModule

        env = make_env("TensorDictDataset", fresh=True)
        m = RL4COLitModule(env, MarkerPolicy("marker"), batch_size=1, train_data_size=1, val_data_size=1, test_data_size=1)
        _CACHE["lit"] = m
    return _CACHE["lit"]


def loader_factory(kind, ds, b, shuffle):
    if kind == "DataLoader":
        return lambda: DataLoader(ds, batch_size=b, collate_fn=ds.collate_fn, shuffle=shuffle)
    m = lit_module()
    if m.dataloader_num_workers != 0:
        raise SeamError("lit module must use num_workers=0")
    if kind == "lit_single":
        return lambda: m._dataloader_single(ds, b, shuffle)
    if kind == "lit_train":

        def mk():
            m.train_dataset = ds
            m.train_batch_size = b
            m.shuffle_train_dataloader = shuffle
            return m.train_dataloader()

        return mk
    raise KeyError(kind)


# --------------------------------------------------------------------------------------------------
# marker policies, tagged TSP generator
# --------------------------------------------------------------------------------------------------
class MarkerPolicy(nn.Module):
    """reward is a known injective function of the instance: kind="marker": scale * tag; kind="tour": the
    environment's own reward of the fixed tour 0,1,..,n-1 (triangle side = tag)"""

    def __init__(self, kind="marker", scale=1024.0):
        super().__init__()
        self.dummy = nn.Parameter(torch.zeros(1))
        self.kind = kind
        self.scale = scale
        self.log = []

    def forward(self, td, env, decode_type=None, **kw):
        self.log.append((decode_type, bool(self.training), int(td.batch_size[0])))
        locs = td["locs"]
        if self.kind == "marker":
            return {"reward": locs[:, 1, 0] * self.scale}
        actions = torch.arange(locs.shape[1]).expand(locs.shape[0], -1)
        return {"reward": env.get_reward(td, actions) * (self.scale / 1024.0)}


def tagged_generator():
    from rl4co.envs.routing.tsp.generator import TSPGenerator

    class TaggedTSPGenerator(TSPGenerator):
        """instance i of the k-th call is the right triangle with legs s = (8k + i + 1)/64: no randomness"""

        def __init__(self):
            super().__init__(num_loc=3)
            self.calls = 0
            self.produced = []

        def _generate(self, batch_size):
            n = int(batch_size[0])
            s = (self.calls * 8 + torch.arange(n) + 1).float() / 64.0
            self.calls += 1
            locs = torch.zeros(n, 3, 2)
            locs[:, 1, 0] = s
            locs[:, 2, 1] = s
            self.produced.append(locs.clone())
            return TensorDict({"locs": locs}, batch_size=batch_size)

    return TaggedTSPGenerator()


def make_env(cls_name, fresh=False):
    """real TSPEnv (num_loc=3) whose generator is the tagged one; cached per process (construction costs ~5 ms),
    the generator's call counter / record is reset on every hand-out"""
    from rl4co.envs import TSPEnv

    key = ("env", cls_name)
    if fresh or key not in _CACHE:
        env = TSPEnv(generator=tagged_generator(), dataset_cls=dataset_classes()[cls_name])
        if fresh:
            return env
        _CACHE[key] = env
    env = _CACHE[key]
    env.generator.calls, env.generator.produced = 0, []
    return env


def solo_rewards(policy, env, locs):
    """the definition: reward of `policy` on each instance ALONE (batch of one, greedy, eval mode)"""
    was = policy.training
    policy.eval()
    out = []
    memo = _CACHE.setdefault("solo", {})
    with torch.inference_mode():
        for i in range(locs.shape[0]):
            key = (policy.kind, policy.scale, tuple(locs[i].flatten().tolist()))
            if key not in memo:  # pure function of (policy, instance): evaluated once per process
                n_log = len(policy.log)
                td = env.reset(TensorDict({"locs": locs[i : i + 1].clone()}, batch_size=[1]))
                memo[key] = policy(td, env, decode_type="greedy")["reward"].reshape(-1)[0].clone()
                del policy.log[n_log:]
            out.append(memo[key])
    policy.train(was)
    return torch.stack(out).clone()


def check_policy_log(policy, what):
    bad = [e for e in policy.log if e[0] != "greedy"]
    if bad:
        return [("values", f"{what}: baseline policy called with decode_type={bad[0][0]!r}, not greedy")]
    # the attached value is the reward of the FROZEN baseline policy on the instance: it is rolled out in eval() mode
    # (in train mode batch-norm / dropout make a row's value depend on its batch-mates and on the call history)
    trn = [e for e in policy.log if e[1]]
    if trn:
        return [("values", f"{what}: the baseline policy is rolled out in train() mode (batch of {trn[0][2]}): its values then depend on the other rows of the evaluation batch")]
    return []


# --------------------------------------------------------------------------------------------------
# one configuration
# --------------------------------------------------------------------------------------------------
def run_config(cfg, stats=None):
    """-> list of (observable, text).  `stats` (dict) receives states / transitions / evaluations / outcomes."""
    stats = stats if stats is not None else {}
    stats.setdefault("states", 0)
    stats.setdefault("transitions", 0)
    stats.setdefault("evaluations", 0)
    stats.setdefault("outcomes", set())
    try:
        return _run_config(cfg, stats)
    except SeamError:
        raise
    except Exception as e:  # the library crashed on a configuration inside the quantifier
        import traceback

        tb = traceback.extract_tb(e.__traceback__)
        where = next((f"{os.path.basename(f.filename)}:{f.lineno} {f.name}" for f in reversed(tb) if "/rl4co/" in f.filename), "")
        return [(f"crash:{type(e).__name__}", f"{type(e).__name__}: {str(e)[:300]} [{where}]")]


def _account(stats, epochs, N):
    for order, batches, _ in epochs:
        stats["states"] += 1
        stats["transitions"] += len(batches)
        stats["evaluations"] += N
        stats["outcomes"].add(",".join(map(str, order)))


def _run_config(cfg, stats):
    kind = cfg["kind"]
    N, b = cfg["N"], cfg.get("b")
    found = []
    if kind == "loader":
        ds, ref, key = build_dataset(cfg["cls"], cfg["mode"], cfg["fields"], cfg.get("extra", "f32"), N)
        epochs = read_epochs(loader_factory(cfg["loader"], ds, b, cfg["shuffle"]), cfg, N)
        _account(stats, epochs, N)
        for e, (order, batches, ncalls) in enumerate(epochs):
            f = judge(batches, ref, order, key, b)
            if not cfg["shuffle"] and ncalls:
                f = [(o, t + " [torch.randperm was called although shuffle=False]") for o, t in f] or f
            found += [(o, (f"epoch {e}: " if len(epochs) > 1 else "") + t) for o, t in f]
        return found
    if kind == "lit_dict":
        N2 = cfg["N2"]
        ds1, ref1, _ = build_dataset(cfg["cls"], "plain", cfg["fields"], None, N)
        ds2, ref2, _ = build_dataset(cfg["cls"], "plain", cfg["fields"], None, N2, offset=10)
        m = lit_module()
        m.val_dataset = {"first": ds1, "second": ds2}
        m.val_batch_size = b
        with PermSeam(None) as seam:
            loaders = m.val_dataloader()
            got = [list(dl) for dl in loaders]
        m.dataloader_names = None
        if len(got) != 2:
            return [("keys", f"{len(got)} loaders for a dict of 2 datasets")]
        if seam.calls:
            found.append(("order", "validation loaders drew a permutation"))
        for name, batches, ref, n in (("first", got[0], ref1, N), ("second", got[1], ref2, N2)):
            stats["states"] += 1
            stats["transitions"] += len(batches)
            stats["evaluations"] += n
            found += [(o, f"loader '{name}': {t}") for o, t in judge(batches, ref, list(range(n)), None, b)]
        return found
    if kind in ("rollout", "wrap", "reinforce"):
        return _run_baseline(cfg, stats)
    raise KeyError(kind)


def _run_baseline(cfg, stats):
    from rl4co.models.rl.reinforce.baselines import RolloutBaseline

    kind, N, bs = cfg["kind"], cfg["N"], cfg["eval_bs"]
    atol = 0.0 if cfg["policy"] == "marker" else 1e-6
    found = []
    if kind == "reinforce":
        return _run_reinforce(cfg, stats, atol)
    env = make_env(cfg["cls"])
    gen = env.generator
    policy = MarkerPolicy(cfg["policy"])
    bl = RolloutBaseline()
    bl.setup(policy, env, batch_size=bs, device="cpu", dataset_size=N)
    if gen.calls != 1:
        raise SeamError(f"RolloutBaseline.setup drew {gen.calls} datasets")
    if kind == "rollout":
        # 1. values stored by setup = rewards of the (copied) baseline policy on its own evaluation set
        want = solo_rewards(bl.policy, env, gen.produced[0])
        found += judge_vector(torch.as_tensor(bl.bl_vals), want, "RolloutBaseline.bl_vals after setup", atol)
        found += check_policy_log(bl.policy, "setup")
        stats["states"] += 1
        stats["transitions"] += len(bl.policy.log)
        # 2. a challenger evaluated on the baseline's own dataset (dataset=None), as epoch_callback does
        cand = MarkerPolicy(cfg["policy"], scale=2048.0)
        r2 = bl.rollout(cand, env, bs, "cpu")
        found += check_policy_log(cand, "rollout(dataset=None)")
        stats["transitions"] += len(cand.log)
        found += judge_vector(r2, solo_rewards(cand, env, gen.produced[0]), "rollout(candidate, dataset=None)", atol)
        # 3. an explicit dataset
        ds = env.dataset(N, phase="train")
        pol3 = MarkerPolicy(cfg["policy"], scale=512.0)
        r3 = bl.rollout(pol3, env, bs, "cpu", dataset=ds)
        stats["transitions"] += len(pol3.log)
        found += judge_vector(r3, solo_rewards(pol3, env, gen.produced[1]), "rollout(policy, dataset=train set)", atol)
        stats["states"] += 2
        stats["evaluations"] += 3 * N
        stats["outcomes"].add("rollout:" + ",".join(str(e[2]) for e in pol3.log))
        return found
    # kind == "wrap"
    ds = env.dataset(N, phase="train")
    locs = gen.produced[1]
    wrapped = bl.wrap_dataset(ds, env, batch_size=bs, device="cpu")
    if cfg.get("rewrap"):
        # the baseline policy was replaced (as RolloutBaseline._update_policy does) and the set is wrapped again
        bl.policy = MarkerPolicy(cfg["policy"], scale=4096.0)
        wrapped = bl.wrap_dataset(wrapped, env, batch_size=bs, device="cpu")
    found += check_policy_log(bl.policy, "wrap_dataset")
    ref = {"locs": locs, "extra": solo_rewards(bl.policy, env, locs)}
    b = cfg["b"]
    epochs = read_epochs(lambda: DataLoader(wrapped, batch_size=b, collate_fn=wrapped.collate_fn, shuffle=cfg["shuffle"]), cfg, N)
    _account(stats, epochs, N)
    for e, (order, batches, _) in enumerate(epochs):
        found += [(o, (f"epoch {e}: " if len(epochs) > 1 else "") + t) for o, t in judge(batches, ref, order, "extra", b, atol=atol)]
    return found


def reinforce_module(cls_name, policy_kind):
    key = ("reinforce", cls_name, policy_kind)
    if key not in _CACHE:
        from rl4co.models.rl import REINFORCE

        env = make_env(cls_name, fresh=True)
        m = REINFORCE(env, MarkerPolicy(policy_kind), baseline="rollout", batch_size=1, train_data_size=1, val_data_size=1, test_data_size=1)
        _CACHE[key] = m
    return _CACHE[key]


def _run_reinforce(cfg, stats, atol):
    N, bs, b = cfg["N"], cfg["eval_bs"], cfg["b"]
    m = reinforce_module(cfg["cls"], cfg["policy"])
    env = m.env
    gen = env.generator
    gen.calls, gen.produced = 0, []
    m.policy.log.clear()
    m.baseline.alpha = 0
    m.baseline.warmup_baseline.v = None
    m.data_cfg.update(batch_size=b, val_batch_size=bs, test_batch_size=bs, train_data_size=N, val_data_size=N, test_data_size=N)
    m.shuffle_train_dataloader = cfg["shuffle"]
    m._trainer = None
    found = []
    m.setup()
    # draws so far: train, val, test, baseline evaluation set
    if gen.calls != 4:
        raise SeamError(f"REINFORCE.setup drew {gen.calls} datasets, expected 4")
    inner = m.baseline.baseline
    found += judge_vector(torch.as_tensor(inner.bl_vals), solo_rewards(inner.policy, env, gen.produced[3]), "rollout baseline values after REINFORCE.setup", atol)
    # warm-up epoch: plain set, no extra
    with PermSeam(None):
        for name, dl, locs, bsz in (("val", m.val_dataloader(), gen.produced[1], bs), ("test", m.test_dataloader(), gen.produced[2], bs)):
            batches = list(dl)
            stats["states"] += 1
            stats["transitions"] += len(batches)
            found += [(o, f"{name}_dataloader: {t}") for o, t in judge(batches, {"locs": locs}, list(range(locs.shape[0])), None, bsz)]
    # end of epoch 0: WarmupBaseline.epoch_callback switches to the rollout baseline, the module redraws and wraps
    m._trainer = types.SimpleNamespace(max_epochs=3, current_epoch=0, strategy=None)
    try:
        m.on_train_epoch_end()
    finally:
        m._trainer = None
    if m.baseline.alpha != 1.0:
        raise SeamError(f"warm-up did not end (alpha={m.baseline.alpha})")
    locs = gen.produced[-1]
    ref = {"locs": locs, "extra": solo_rewards(inner.policy, env, locs)}
    found += check_policy_log(inner.policy, "REINFORCE.wrap_dataset")
    epochs = read_epochs(lambda: m.train_dataloader(), cfg, N)
    _account(stats, epochs, N)
    for e, (order, batches, _) in enumerate(epochs):
        found += [(o, f"train_dataloader: " + (f"epoch {e}: " if len(epochs) > 1 else "") + t) for o, t in judge(batches, ref, order, "extra", b, atol=atol)]
    return found


# --------------------------------------------------------------------------------------------------
# grids, triggers, work units
# --------------------------------------------------------------------------------------------------
def perm_configs(N, all_perms_upto, seed):
    """the shuffle part of the grid for one (N, b): list of dict(shuffle, perms|epochs)"""
    out = [dict(shuffle=False, epochs=2)]
    ident = list(range(N))
    if N <= all_perms_upto:
        perms = [list(p) for p in itertools.permutations(range(N))]
    else:
        g = torch.Generator().manual_seed(seed + N)
        perms = [ident, ident[::-1], ident[1:] + ident[:1], torch.randperm(N, generator=g).tolist()]
        perms = [p for k, p in enumerate(perms) if p not in perms[:k]]
    out += [dict(shuffle=True, perms=[p]) for p in perms]
    out.append(dict(shuffle=True, perms="recorded", seed=seed + 17 * N))
    if N >= 2:
        out.append(dict(shuffle=True, perms=[ident[::-1], ident, ident[1:] + ident[:1]]))
    return out


TRIGGERS = [  # fixed vocabulary, narrowest first
    ("N==1", lambda c: c["N"] == 1),
    ("eval_batch_size>N", lambda c: c.get("eval_bs") is not None and c["eval_bs"] > c["N"]),
    ("eval_batch_size==1", lambda c: c.get("eval_bs") == 1),
    ("eval_partial_last_batch", lambda c: c.get("eval_bs") is not None and c["N"] % c["eval_bs"] != 0),
    ("eval_multi_batch", lambda c: c.get("eval_bs") is not None and c["N"] > c["eval_bs"]),
    ("batch_size>N", lambda c: c.get("b") is not None and c["b"] > c["N"]),
    ("batch_size==1", lambda c: c.get("b") == 1),
    ("batch_of_one", lambda c: c.get("b") is not None and (c["b"] == 1 or c["N"] % c["b"] == 1)),
    ("partial_last_batch", lambda c: c.get("b") is not None and c["N"] % c["b"] != 0),
    ("shuffle", lambda c: bool(c.get("shuffle"))),
    ("multi_batch", lambda c: c.get("b") is not None and c["N"] > c["b"]),
    ("always", lambda c: True),
]


def trigger_of(cfgs):
    """narrowest condition of the fixed vocabulary shared by all failing configurations"""
    for name, pred in TRIGGERS:
        if all(pred(c) for c in cfgs):
            return name
    return "always"


def size_of(cfg):
    perms = cfg.get("perms")
    return (cfg["N"], cfg.get("eval_bs") or 0, cfg.get("b") or 0, 1 if cfg.get("shuffle") else 0, len(perms) if isinstance(perms, list) else 9, str(perms))


def unit_configs(item):
    head = dict(item["head"])
    nmax, allp, seed = item["nmax"], item["all_perms_upto"], item["seed"]
    kind = head["kind"]
    for N in range(1, nmax + 1):
        if kind == "loader":
            for b in range(1, N + 2):
                for pc in perm_configs(N, allp, seed):
                    yield dict(head, N=N, b=b, **pc)
        elif kind == "lit_dict":
            for b in range(1, N + 2):
                for N2 in sorted({1, N + 1}):
                    yield dict(head, N=N, N2=N2, b=b)
        elif kind == "rollout":
            for bs in range(1, N + 2):
                yield dict(head, N=N, eval_bs=bs)
        elif kind == "wrap":
            for bs in range(1, N + 2):
                for b in range(1, N + 2):
                    for pc in perm_configs(N, allp, seed):
                        if head.get("rewrap") and pc.get("perms") not in (None, "recorded") and len(pc["perms"]) == 1 and N > 3:
                            p0 = pc["perms"][0]
                            if p0 != list(range(N))[::-1] and p0 != list(range(1, N)) + [0]:
                                continue  # second wrapping: reduced permutation set above N=3
                        yield dict(head, N=N, eval_bs=bs, b=b, **pc)
        elif kind == "reinforce":
            ident = list(range(N))
            for bs in range(1, N + 2):
                for b in range(1, N + 2):
                    yield dict(head, N=N, eval_bs=bs, b=b, shuffle=False, epochs=1)
                    for p in ([ident[::-1], ident[1:] + ident[:1]] if N >= 2 else [ident]):
                        yield dict(head, N=N, eval_bs=bs, b=b, shuffle=True, perms=[p])


def env_and_config(head):
    kind = head["kind"]
    if kind == "loader":
        tail = f"{head['fields']}" + (f":{head['extra']}" if head["mode"] != "plain" else "")
        if head["loader"] != "DataLoader":
            return "lit_dataloader", f"{head['loader']}:{head['cls']}:{head['mode']}:{tail}"
        if head["mode"] in ("ekd", "ekd_named"):
            return "ExtraKeyDataset", f"over={head['cls']}:{head['mode']}:{tail}"
        return head["cls"], f"{head['mode']}:{tail}"
    if kind == "lit_dict":
        return "lit_dataloader", f"val_dict:{head['cls']}:{head['fields']}"
    if kind == "reinforce":
        return "rollout_baseline", f"REINFORCE:{head['cls']}:{head['policy']}"
    return "rollout_baseline", f"{kind}{'+rewrap' if head.get('rewrap') else ''}:{head['cls']}:{head['policy']}"


def unit_file(item):
    """Instances stored in a file (.npz with float64 / int64 / bool / float32 fields, as plain numpy or an external
    benchmark writes them), served by env.dataset(phase, filename) through every dataset class and read back through
    data loaders of every batch size: dtypes, shapes, values and order are those of the file."""
    import shutil
    import tempfile

    import numpy as np
    from torch.utils.data import DataLoader

    from rl4co.data import dataset as D
    from rl4co.envs import TSPEnv

    from ..core import VERIF

    p = Partial()
    N = item["N"]
    root = os.path.join(VERIF, ".cache", "c17")
    os.makedirs(root, exist_ok=True)
    d = tempfile.mkdtemp(prefix="c17_", dir=root)
    try:
        arrays = dict(
            locs=(np.arange(N * 4 * 2, dtype=np.float64).reshape(N, 4, 2) / 97.0 + 1e-12),
            weight=np.arange(N * 3, dtype=np.int64).reshape(N, 3) * 7 - 5,
            flag=(np.arange(N) % 2 == 0),
            x32=(np.arange(N * 2, dtype=np.float32).reshape(N, 2) / 3.0),
        )
        np.savez(os.path.join(d, "inst.npz"), **arrays)
        for cls_name in ("TensorDictDataset", "FastTdDataset", "TensorDictDatasetFastGeneration"):
            env = TSPEnv(generator_params=dict(num_loc=4), dataset_cls=getattr(D, cls_name), data_dir=d, test_file="inst.npz")
            ds = env.dataset(phase="test")
            for b in range(1, N + 2):
                rows = {k: [] for k in arrays}
                for batch in DataLoader(ds, batch_size=b, shuffle=False, collate_fn=ds.collate_fn):
                    for k in arrays:
                        rows[k].append(batch[k])
                p.add(states=1, transitions=-(-N // b), evaluations=N, distinct_count=1)
                p.case(f"file|{cls_name}|{N}|{b}")
                for k, want in arrays.items():
                    got = torch.cat(rows[k], 0)
                    w = torch.from_numpy(want)
                    if got.dtype != w.dtype or tuple(got.shape) != tuple(w.shape) or not torch.equal(got, w):
                        what = f"dtype {got.dtype} instead of {w.dtype}" if got.dtype != w.dtype else ("shape" if tuple(got.shape) != tuple(w.shape) else "values / order")
                        p.violation(
                            dict(property=PID, env="file_dataset", config=f"{cls_name}", observable="dtype" if got.dtype != w.dtype else "values", trigger=f"field:{w.dtype}".replace("torch.", "")),
                            dict(kind="file", N=N, cls=cls_name, batch_size=b, field=k),
                            f"file dataset {cls_name}: N={N} loader batch size {b}: field '{k}' comes back with {what}",
                        )
                        break
                p.outcome(f"file|{cls_name}")
        # several named validation / test files (given in an order that is NOT lexicographic): every named data set holds
        # the instances of ITS file, in the file's order
        sizes = {"tsp50.npz": N, "tsp100.npz": N + 2, "a_first.npz": N + 1}
        for fn, n_ in sizes.items():
            np.savez(os.path.join(d, fn), locs=(np.arange(n_ * 4 * 2, dtype=np.float32).reshape(n_, 4, 2) / 61.0 + len(fn)))
        for phase in ("val", "test"):
            for order in (["tsp50.npz", "tsp100.npz", "a_first.npz"], ["tsp100.npz", "a_first.npz", "tsp50.npz"]):
                for names in (None, ["small", "large", "extra"]):
                    kw = {f"{phase}_file": order, f"{phase}_dataloader_names": names}
                    env = TSPEnv(generator_params=dict(num_loc=4), data_dir=d, **kw)
                    dss = env.dataset(phase=phase)
                    keys = names or [str(i) for i in range(len(order))]
                    p.add(states=1, transitions=len(order), evaluations=sum(sizes.values()), distinct_count=1)
                    p.case(f"filelist|{phase}|{order}|{names}")
                    for name, fn in zip(keys, order):
                        want = torch.from_numpy(np.load(os.path.join(d, fn))["locs"])
                        ds_ = dss.get(name) if isinstance(dss, dict) else None
                        got = None
                        if ds_ is not None:
                            got = torch.cat([b["locs"] for b in DataLoader(ds_, batch_size=2, shuffle=False, collate_fn=ds_.collate_fn)], 0)
                        if got is None or tuple(got.shape) != tuple(want.shape) or not torch.equal(got, want):
                            p.violation(
                                dict(property=PID, env="file_dataset", config="named_file_list", observable="values", trigger=f"{phase}_files_unsorted" if order != sorted(order) else f"{phase}_files"),
                                dict(kind="file", N=N, cls="TensorDictDataset", batch_size=2, field="locs"),
                                f"env.dataset('{phase}') with files {order} and names {keys}: data set '{name}' does not hold the {want.shape[0]} instances of its file {fn} (got {None if got is None else got.shape[0]} instances)",
                            )
                            break
    finally:
        shutil.rmtree(d, ignore_errors=True)
    p.sample(dict(part="file-backed dataset", N=N), cap=1)
    return p


def unit_mdam(item):
    """MDAM installs its own greedy-rollout function on the rollout baseline (best reward over the decoder paths of each
    instance).  For every data-set size and evaluation batch size (dividing the size or not) the value at position i
    must be the best-path reward of instance i; the model is a marker whose rewards are a known function of the instance."""
    import types

    from rl4co.data.dataset import TensorDictDataset
    from rl4co.models.zoo.mdam.model import rollout as mdam_rollout

    class Marker(nn.Module):
        def forward(self, td, env=None, decode_type="greedy", **kw):
            key = td["locs"][:, 0, 0] * 100.0
            return {"reward": key[:, None] - torch.tensor([3.0, 0.0, 7.0])[None]}  # path 1 is the best one

    env = types.SimpleNamespace(reset=lambda batch: batch)
    p = Partial()
    for N in range(1, item["Nmax"] + 1):
        locs = torch.arange(N * 3 * 2, dtype=torch.float32).reshape(N, 3, 2) / 50.0
        ds = TensorDictDataset(TensorDict(dict(locs=locs), batch_size=[N]))
        want = (locs[:, 0, 0] * 100.0).tolist()
        for bs in range(1, N + 2):
            try:
                got = mdam_rollout(types.SimpleNamespace(dataset=None), Marker(), env, batch_size=bs, device="cpu", dataset=ds).tolist()
            except Exception as e:  # noqa: BLE001
                got = e
            p.add(states=1, transitions=-(-N // bs), evaluations=N, distinct_count=1)
            p.case(f"mdam|{N}|{bs}")
            ok = not isinstance(got, Exception) and len(got) == N and all(abs(a - b) < 1e-4 for a, b in zip(got, want))
            p.outcome(f"mdam|{'ok' if ok else 'bad'}")
            if not ok:
                trig = "eval_partial_last_batch" if N % bs else "eval_dividing_batch"
                p.violation(
                    dict(property=PID, env="rollout_baseline", config="mdam_rollout", observable="extra", trigger=trig),
                    dict(kind="mdam", Nmax=item["Nmax"], N=N, eval_bs=bs),
                    f"MDAM rollout baseline: N={N} eval batch size {bs}: values {got if isinstance(got, Exception) else [round(x, 3) for x in got]} are not the per-instance best-path rewards {[round(x, 3) for x in want]}",
                )
    # the override must be installed for every way of asking for a rollout baseline: the default (warm-up around it) and
    # a bare RolloutBaseline object handed to the model
    from rl4co.envs import TSPEnv
    from rl4co.models.rl.reinforce.baselines import RolloutBaseline, WarmupBaseline
    from rl4co.models.zoo import MDAM

    real_env = TSPEnv(generator_params=dict(num_loc=3))
    for how in ("default", "bare_rollout_object"):
        model = MDAM(real_env, policy=Marker(), baseline="rollout" if how == "default" else RolloutBaseline())
        rb = model.baseline.baseline if isinstance(model.baseline, WarmupBaseline) else model.baseline
        locs = torch.arange(3 * 3 * 2, dtype=torch.float32).reshape(3, 3, 2) / 50.0
        ds = TensorDictDataset(TensorDict(dict(locs=locs), batch_size=[3]))
        try:
            got = rb.rollout(Marker(), env, batch_size=2, device="cpu", dataset=ds)
            shape = tuple(got.shape)
        except Exception as e:  # noqa: BLE001
            shape = f"{type(e).__name__}: {str(e)[:60]}"
        p.add(states=1, transitions=2, evaluations=3, distinct_count=1)
        p.case(f"mdam|install|{how}")
        if shape != (3,):
            p.violation(
                dict(property=PID, env="rollout_baseline", config="mdam_rollout", observable="extra", trigger=f"baseline_given_as_{how}"),
                dict(kind="mdam", Nmax=item["Nmax"], N=3, eval_bs=2),
                f"MDAM with the rollout baseline given as {how}: baseline values for 3 instances have shape {shape} instead of one best-path reward per instance",
            )
    p.sample(dict(part="MDAM rollout override", sizes=f"1..{item['Nmax']}"), cap=1)
    return p


def unit(item):
    if item.get("head", {}).get("kind") == "mdam":
        return unit_mdam(item)
    if item.get("head", {}).get("kind") == "file":
        return unit_file(item)
    p = Partial()
    head = item["head"]
    env_name, config = env_and_config(head)
    fails = {}  # observable -> list of (cfg, text)
    outcomes = set()
    for cfg in unit_configs(item):
        st = {}
        found = run_config(cfg, st)
        n_states = st.get("states", 0)
        p.add(states=n_states, transitions=st.get("transitions", 0), evaluations=st.get("evaluations", 0), configs=1)
        if cfg["N"] >= 2:
            p.add(distinct_count=n_states)
        if cfg.get("perms") == "recorded":
            p.add(traces_validated_against_impl=1)
        outcomes |= st.get("outcomes", set())
        clean = {k: v for k, v in cfg.items() if not k.startswith("_")}
        for obs, text in found:
            fails.setdefault(obs, []).append((clean, text))
    for o in outcomes:
        p.outcome(o)
    for obs, lst in sorted(fails.items()):
        trig = trigger_of([c for c, _ in lst])
        lst.sort(key=lambda ct: size_of(ct[0]))
        cfg, text = lst[0]
        p.add(violations_raw=len(lst) - 1)
        p.violation(
            dict(property=PID, env=env_name, config=config, observable=obs, trigger=trig),
            dict(kind="c17_config", cfg=cfg, failing_configurations_in_unit=len(lst)),
            f"{env_name} {config}: " + " ".join(f"{k}={cfg[k]}" for k in ("N", "N2", "eval_bs", "b", "shuffle", "perms", "epochs") if cfg.get(k) is not None) + f": {text} ({len(lst)} failing configuration(s) in this unit)",
        )
    p.sample(dict(unit=f"{env_name}|{config}", configs=p.stats.get("configs", 0), states=p.stats.get("states", 0)), cap=1)
    return p


def build_items(tier, seed):
    quick = tier == "quick"
    nmax = 4 if quick else 5
    allp = nmax
    classes = list(dataset_classes())
    fields = ["mixed", "locs", "scalar"] + ([] if quick else ["wide"])
    modes = ["plain", "add_key", "ekd"] + ([] if quick else ["ekd_named"])
    extras = ["f32"] if quick else ["f32", "f32col", "i64"]
    loaders = ["DataLoader", "lit_single", "lit_train"]
    heads = []
    for cls in classes:
        for mode in modes:
            for fs in fields:
                for ex in (extras if mode != "plain" else [None]):
                    for ld in loaders:
                        if ld != "DataLoader" and (fs == "wide" or ex not in (None, "f32")):
                            continue  # the lit loaders add nothing dtype-specific: keep them on the core grid
                        h = dict(kind="loader", cls=cls, mode=mode, fields=fs, loader=ld)
                        if ex is not None:
                            h["extra"] = ex
                        heads.append(h)
        heads.append(dict(kind="lit_dict", cls=cls, fields="mixed"))
        for pol in ["marker", "tour"]:
            heads.append(dict(kind="rollout", cls=cls, policy=pol))
            heads.append(dict(kind="wrap", cls=cls, policy=pol))
            heads.append(dict(kind="wrap", cls=cls, policy=pol, rewrap=True))
            heads.append(dict(kind="reinforce", cls=cls, policy=pol))
    only = os.environ.get("VERIF_ONLY")
    items = []
    for h in heads:
        e, c = env_and_config(h)
        if only and only not in f"{e}|{c}|{h['kind']}":
            continue
        items.append(dict(head=h, nmax=nmax, all_perms_upto=allp, seed=seed))
    # heavy units first for better packing
    items.sort(key=lambda it: {"wrap": 0, "reinforce": 1, "loader": 2}.get(it["head"]["kind"], 3))
    return items


def incidental_notes(rep):
    """crashes next to the anchored code that are NOT judged by C17 (no instance is mis-routed): reported as INFO"""
    try:
        from rl4co.models.rl import REINFORCE

        m = REINFORCE(make_env("TensorDictDataset", fresh=True), MarkerPolicy(), baseline="rollout_only", batch_size=1, train_data_size=2, val_data_size=2, test_data_size=2)
        try:
            m.setup()
        except Exception as e:
            rep.info.append(f"not judged by C17: REINFORCE(baseline='rollout_only').setup() raises {type(e).__name__}: {e} (wrap_dataset runs before baseline.setup)")
    except Exception:
        pass
    try:
        from rl4co.models.rl.reinforce.baselines import RolloutBaseline

        env = make_env("TensorDictDataset", fresh=True)
        bl = RolloutBaseline()
        try:
            bl.setup(MarkerPolicy(), env, batch_size=2, dataset=env.dataset(2))
        except Exception as e:
            rep.info.append(f"not judged by C17: RolloutBaseline.setup(policy, env, dataset=ds) ignores ds ({type(e).__name__}: {e} on first use; a stale self.dataset is evaluated afterwards)")
    except Exception:
        pass
    try:
        m = lit_module()
        ds, _, _ = build_dataset("TensorDictDataset", "plain", "locs", None, 2)
        m.val_dataset, m.val_batch_size = [ds, ds], 1
        try:
            m.val_dataloader()
        except Exception as e:
            rep.info.append(f"not judged by C17: RL4COLitModule._dataloader with a LIST of datasets raises {type(e).__name__}: {e} (dict works)")
        m.dataloader_names = None
    except Exception:
        pass


def seam_selftest():
    """the installed torch's RandomSampler must route through torch.randperm, and the patch must be restored"""
    orig = torch.randperm
    ds, ref, _ = build_dataset("TensorDictDataset", "plain", "scalar", None, 3)
    with PermSeam([2, 0, 1]) as seam:
        got = [int(b["b"][0]) for b in DataLoader(ds, batch_size=1, collate_fn=ds.collate_fn, shuffle=True)]
    if torch.randperm is not orig:
        raise SeamError("torch.randperm not restored")
    if not seam.calls or got != [int(ref["b"][j]) for j in (2, 0, 1)]:
        raise SeamError(f"DataLoader(shuffle=True) does not route through torch.randperm on this torch ({torch.__version__}): calls={seam.calls} got={got}")
    return len(seam.calls)


def main(tier):
    rep = Report(
        PID,
        tier,
        level="model_checking",
        rule="one state = one epoch read of one configuration (dataset class, wrapping mode, field set, N, batch size, loader, forced permutation | baseline evaluation batch size); transitions = batches read / baseline policy calls; distinct = states with N >= 2",
    )
    seed = seed_from_env()
    # import the library once in the parent so that the forked workers share it
    import rl4co.envs  # noqa: F401
    import rl4co.models.rl  # noqa: F401

    calls = seam_selftest()
    nmax = 4 if tier == "quick" else 5
    rep.assumptions = [
        f"shuffle order is owned at the torch.randperm seam (RandomSampler draws torch.randperm(n, generator=g); {calls} calls per epoch on torch {torch.__version__}); every forced permutation of N <= {nmax} instances is enumerated; one run per (N, batch size) lets the real randperm through and only records it",
        "num_workers=0 only; CPU only; instance sets are value-tagged TensorDicts (flat keys, no nested TensorDicts) with N <= " + str(nmax),
        "the baseline policy is a marker module (reward = tag, or env reward of the fixed tour 0,1,2 on right triangles of distinct size); 'reward on instance i' is defined as that policy on instance i alone (batch of one, greedy)",
        "REINFORCE path: on_train_epoch_end() is called with a stub trainer (max_epochs=3, current_epoch=0) instead of a running lightning Trainer",
        "second wrapping (wrap+rewrap units): all permutations up to N=3, above that reverse / rotation / recorded / 3-epoch runs only",
        "not judged: aliasing side effects on the ORIGINAL (inner) dataset / TensorDict after wrapping (ExtraKeyDataset writes the extra key into the inner dataset's dicts; TensorDictDatasetFastGeneration.add_key edits in place)",
    ]
    items = build_items(tier, seed)
    if not os.environ.get("VERIF_ONLY") or "file" in os.environ.get("VERIF_ONLY"):
        items += [dict(head=dict(kind="file"), N=n) for n in ((3, 4) if tier == "quick" else (1, 2, 3, 4, 5))]
        items += [dict(head=dict(kind="mdam"), Nmax=5 if tier == "quick" else 8)]
    rep.merge_all(pmap(unit, items))
    rep.extra["units_by_kind"] = {k: sum(1 for it in items if it["head"]["kind"] == k) for k in sorted({it["head"]["kind"] for it in items})}
    rep.extra["max_N"] = nmax
    if not os.environ.get("VERIF_ONLY"):
        incidental_notes(rep)
    return rep.finish()


def replay(rec):
    if rec.get("kind") == "mdam":
        p = unit_mdam(dict(head=dict(kind="mdam"), Nmax=rec["Nmax"]))
        hit = [v for v in p.violations if v["replay"]["N"] == rec["N"] and v["replay"]["eval_bs"] == rec["eval_bs"]] or p.violations
        return bool(hit), "; ".join(v["msg"] for v in hit[:1]) or "MDAM rollout values belong to their instances"
    if rec.get("kind") == "file":
        p = unit_file(dict(head=dict(kind="file"), N=rec["N"]))
        return bool(p.violations), "; ".join(v["msg"] for v in p.violations[:2]) or "file-backed datasets return the stored dtypes, values and order"
    cfg = dict(rec["cfg"])
    found = run_config(cfg, {})
    want = (rec.get("signature") or {}).get("observable")
    hit = [f for f in found if want is None or f[0] == want]
    text = f"C17 replay of {cfg}: " + ("; ".join(f"[{o}] {t}" for o, t in found) if found else "all batches equal the original instances in the expected order")
    return bool(hit), text
