"""C08 — selection environments pick exactly the quota of distinct, allowed items.

E1 over FLP (all quotas 1..n-1), MCP (membership tables with zero padding / duplicate items, quotas), DPP and
MDPP (synthetic 3x3 / 4x4 chips: every probe position, keep-out layouts): ALL mask-admitted selection
orders.  In EVERY explored state (not only at the end):
  chosen items so far are pairwise distinct and none is forbidden (keep-out, probe);
  done is True exactly from step = quota on;
  the bookkeeping shown to the policy equals what follows from the selection so far
  (FLP td['distances'] = min distance to a chosen facility, td['chosen']; MCP td['weights'] = weight of still
  uncovered items, td['chosen']).
At the leaves the reward equals the definition (FLP, MCP).
"""
from __future__ import annotations

import os

import torch

from .. import explore as E
from ..core import Partial, Report, pmap, seed_from_env
from ..rtree import sig
from ..selection import SPECS, FLPSpec, MCPSpec

PID = "C08"


def quota_of(spec, inst):
    return spec.step_bound(inst)


def forbidden(spec, inst):
    if spec.kind in ("dpp", "mdpp"):
        return set(inst["keepout"]) | set(inst["probes"])
    return set()


def unit(item):
    key, tier, seed = item
    spec = SPECS[key]
    p = Partial()
    for iid, inst in spec.instances(tier, seed):
        env = spec.env(inst)
        td0 = spec.td(inst)
        q = quota_of(spec, inst)
        forb = forbidden(spec, inst)
        found = []

        def on_level(depth, states, hists):
            B = len(hists)
            done = E.done_vec(states).tolist()
            chosen_col = states["chosen"].tolist() if "chosen" in states.keys() else None
            book = None
            if spec.kind == "flp" and depth > 0:
                book = states["distances"].tolist()
            if spec.kind == "mcp":
                book = states["weights"].tolist()
            for r in range(B):
                h = hists[r]
                probs = []
                if len(set(h)) != len(h):
                    probs.append(("selection", "duplicate_item", f"item chosen twice in {list(h)}"))
                if forb & set(h):
                    probs.append(("selection", "forbidden_item", f"forbidden item {sorted(forb & set(h))} chosen in {list(h)}"))
                if done[r] != (depth >= q):
                    probs.append(("done", "quota", f"done={done[r]} at step {depth} with quota {q}"))
                if chosen_col is not None:
                    want = [i in set(h) for i in range(len(chosen_col[r]))]
                    if [bool(x) for x in chosen_col[r]] != want:
                        probs.append(("bookkeeping", "chosen", f"td['chosen'] {chosen_col[r]} after {list(h)}"))
                if book is not None:
                    if spec.kind == "flp":
                        ref = FLPSpec.distances_after(inst, h)
                    else:
                        ref = MCPSpec.weights_after(inst, h)
                    if any(abs(a - b) > 1e-5 for a, b in zip(book[r], ref)):
                        probs.append(("bookkeeping", "distances" if spec.kind == "flp" else "weights", f"after {list(h)}: library {book[r]} vs definition {ref}"))
                for pr in probs:
                    found.append((h, pr))

        tree = E.explore(env, td0, on_level=on_level)
        p.add(states=tree.states, transitions=tree.transitions, leaves=len(tree.leaves), trees=1, distinct_count=tree.states, evaluations=tree.states)
        p.maxi(max_depth=tree.max_depth)
        for h in tree.dead:
            found.append((h, ("mask", "dead_end", f"no item on offer after {list(h)} before the quota is reached")))
        if tree.max_depth != q:
            found.append((tree.leaves[0] if tree.leaves else (), ("done", "quota", f"episodes end after {tree.max_depth} selections, quota {q}")))
        if spec.kind in ("flp", "mcp") and tree.leaves:
            rs = E.rewards_of_leaves(env, tree)
            for h, r in zip(tree.leaves, rs):
                ref = FLPSpec.objective(inst, h) if spec.kind == "flp" else MCPSpec.objective(inst, h)
                p.outcome(f"{spec.key}|{round(ref, 4)}")
                if abs(r - ref) > 1e-5 * (1 + abs(ref)):
                    found.append((h, ("reward", "objective", f"reward {r} vs definition {ref} for {list(h)}")))
        for h, (obs, trig, text) in found[:6]:
            p.violation(
                sig(PID, spec, obs, trig),
                dict(kind="sel_trace", spec=spec.key, instance_id=iid, instance=inst, actions=list(h)),
                f"{spec.key} {iid}: {text}",
            )
        p.add(violations_raw=max(0, len(found) - 6))
        for i in E.pick_indices(len(tree.leaves), 3):
            td, masks, dones = E.run_solo(env, td0, tree.leaves[i])
            p.add(traces_validated_against_impl=1)
            if not dones[-1] or any(dones[:-1]):
                p.note(f"{spec.key} {iid}: solo replay disagrees with batched frontier on done (C04)")
        p.sample(dict(env=spec.key, instance=iid, quota=q, states=tree.states, leaves=len(tree.leaves)), cap=1)
    return p


def _sequences(n_items, q):
    import itertools

    return list(itertools.permutations(range(n_items), q))


def unit_mixed(item):
    """FLP / MCP carry the quota per instance (`to_choose`, `n_sets_to_choose`): in a batch whose rows have DIFFERENT
    quotas every row must raise its finish flag exactly at its own quota.  All pairs of selection orders of two small
    instances with different quotas are stepped in lock-step on the real env.step (a finished row keeps taking the
    first item still on offer; what happens to it after its quota is C02/C04's business and not judged here)."""
    _, key, tier, seed = item
    spec = SPECS[key]
    p = Partial()
    insts = [x for x in spec.instances(tier, seed)]
    by_shape = {}
    for iid, inst in insts:
        td = spec.td(inst)
        by_shape.setdefault(tuple((k, tuple(v.shape[1:])) for k, v in sorted(td.items())), []).append((iid, inst, td))
    pairs = []
    for g in by_shape.values():
        qs = {}
        for x in g:
            qs.setdefault(quota_of(spec, x[1]), x)
        ql = sorted(qs)
        for i in range(len(ql)):
            for j in range(len(ql)):
                if i != j and max(ql[i], ql[j]) <= 3:
                    pairs.append((qs[ql[i]], qs[ql[j]]))
    pairs = pairs[: 6 if tier == "quick" else 30]
    for (ia, insta, tda), (ib, instb, tdb) in pairs:
        qa, qb = quota_of(spec, insta), quota_of(spec, instb)
        n_items = tda["action_mask"].shape[-1] if "action_mask" in tda.keys() else None
        env = spec.env(insta if qa >= qb else instb)
        td00 = env.reset(torch.cat([tda, tdb], 0))
        n_items = td00["action_mask"].shape[-1]
        T = max(qa, qb)
        for sa in _sequences(n_items, qa):
            for sb in _sequences(n_items, qb):
                td = td00.clone()
                ok = True
                hist = []
                for t in range(T):
                    mask = td["action_mask"]
                    acts = []
                    for r, (sq, q) in enumerate(((sa, qa), (sb, qb))):
                        if t < q:
                            acts.append(sq[t])
                        else:
                            offered = mask[r].nonzero().flatten().tolist()
                            acts.append(offered[0] if offered else 0)
                    hist.append(list(acts))
                    if not all(bool(mask[r, acts[r]]) for r, q in ((0, qa), (1, qb)) if t < q):
                        ok = False  # not a mask-admitted pair of orders (cannot happen for distinct items)
                        break
                    td = E.step_batch(env, td, acts)
                    done = E.done_vec(td).tolist()
                    for r, (q, iid) in enumerate(((qa, ia), (qb, ib))):
                        if t + 1 <= q and done[r] != (t + 1 >= q):
                            p.violation(
                                sig(PID, spec, "done", "mixed_quota_batch"),
                                dict(kind="sel_mixed", spec=spec.key, a=dict(instance_id=ia, instance=insta), b=dict(instance_id=ib, instance=instb), actions=hist),
                                f"{spec.key}: batch [{ia} (quota {qa}), {ib} (quota {qb})], joint actions {hist}: row {r} reports done={done[r]} after {t + 1} selections, its own quota is {q}",
                            )
                            ok = False
                    if not ok:
                        break
                p.add(states=T, transitions=T, evaluations=1, distinct_count=1, traces_validated_against_impl=1)
        p.outcome(f"{spec.key}|mixed|{qa}|{qb}")
    return p


def unit_unbatched(item):
    """DPP / MDPP support instances WITHOUT a batch dimension (generator([]) builds them, _get_reward special-cases
    them): all mask-admitted selection orders of generator-made un-batched instances, stepped one TensorDict at a time."""
    _, key, tier, seed = item
    spec = SPECS[key]
    p = Partial()
    size, quota = 3, 2
    env = spec.env(dict(size=size, quota=quota))
    for j in range(3 if tier == "quick" else 8):
        with torch.random.fork_rng():
            torch.manual_seed(8300 + 97 * seed + j)
            inst_td = env.generator([])
        probes = inst_td["probe"].bool().nonzero().flatten().tolist() if spec.multi else [int(inst_td["probe"].reshape(-1)[0])]
        mask0 = inst_td["action_mask"].bool().tolist()
        keepout = [c for c in range(size * size) if not mask0[c] and c not in probes]
        forb = set(keepout) | set(probes)
        rec0 = dict(kind="sel_unbatched", spec=spec.key, draw=j, seed=seed)
        if sum(1 for c in range(size * size) if c not in forb) < quota:
            continue
        try:
            root = env.reset(inst_td.clone())
        except Exception as e:  # noqa: BLE001
            p.violation(sig(PID, spec, f"crash:{type(e).__name__}", "unbatched_reset"), rec0, f"{spec.key}: reset of an un-batched generator instance raised {type(e).__name__}: {str(e)[:100]}")
            continue
        stack = [((), root)]
        bad = None
        while stack and bad is None:
            h, td = stack.pop()
            done = bool(td["done"].reshape(-1)[0]) if "done" in td.keys() else False
            p.add(states=1, evaluations=1, distinct_count=1)
            if len(set(h)) != len(h) or forb & set(h):
                bad = ("selection", "unbatched", f"selection {list(h)} repeats an item or takes a forbidden one {sorted(forb & set(h))}")
                break
            if done != (len(h) >= quota):
                bad = ("done", "unbatched", f"done={done} after {len(h)} selections, quota {quota}")
                break
            if done:
                continue
            offered = td["action_mask"].reshape(-1).nonzero().flatten().tolist()
            if not offered:
                bad = ("mask", "unbatched", f"no item on offer after {list(h)}")
                break
            for a in offered:
                t = td.clone()
                t.set("action", torch.tensor(a))
                try:
                    nxt = env.step(t)["next"]
                except Exception as e:  # noqa: BLE001
                    bad = (f"crash:{type(e).__name__}", "unbatched", f"step {a} after {list(h)} on an un-batched instance raised {type(e).__name__}: {str(e)[:100]}")
                    break
                p.add(transitions=1, traces_validated_against_impl=1)
                stack.append((h + (a,), nxt))
        if bad is not None:
            p.violation(sig(PID, spec, bad[0], bad[1]), dict(rec0, actions=list(h)), f"{spec.key} (un-batched generator instance, probes {probes}, keep-out {keepout}): {bad[2]}")
        p.outcome(f"{spec.key}|unbatched|{'ok' if bad is None else bad[0]}")
    return p


def unit_torchrl(item):
    """TorchRL-style stepping (`_torchrl_mode=True`): env.step(td) writes the successor under td["next"].  A depth-first
    walk over ALL selection orders that re-steps the SAME state object with one action after the other (what tree search
    and retry loops do): every successor must follow from the selection so far (chosen flags, mask, distinct items, done
    at the quota) - whatever an earlier step from the same state left behind in td["next"]."""
    from rl4co.envs import FLPEnv, MCPEnv

    _, key, tier, seed = item
    spec = SPECS[key]
    p = Partial()
    insts = [x for x in spec.instances("quick", seed) if quota_of(spec, x[1]) >= 2][:2]
    for iid, inst in insts:
        q = quota_of(spec, inst)
        td0 = spec.td(inst)
        if spec.kind == "flp":
            env = FLPEnv(generator_params=dict(num_loc=len(inst["locs"]), to_choose=q), _torchrl_mode=True)
        else:
            base = spec.env(inst)
            env = MCPEnv(generator=base.generator, _torchrl_mode=True)
        root = env.reset(td0.clone())
        bad = None
        stack = [((), root)]
        while stack and bad is None:
            h, td = stack.pop()
            offered = td["action_mask"].reshape(-1).nonzero().flatten().tolist()
            done = bool(E.done_vec(td)[0])
            if done or len(h) >= q:
                continue
            for a in offered:  # the same td object is stepped again and again
                td.set("action", torch.tensor([a]))
                out = env.step(td)
                nxt = out["next"].clone()
                hh = h + (a,)
                p.add(states=1, transitions=1, evaluations=1, distinct_count=1, traces_validated_against_impl=1)
                chosen = nxt["chosen"].reshape(-1).tolist() if "chosen" in nxt.keys() else None
                mask_n = nxt["action_mask"].reshape(-1).tolist()
                dn = bool(E.done_vec(nxt)[0])
                if chosen is not None and [bool(x) for x in chosen] != [i in set(hh) for i in range(len(chosen))]:
                    bad = ("bookkeeping", f"after {list(hh)} (state re-stepped) td['chosen'] marks {[i for i, c in enumerate(chosen) if c]}")
                elif any(mask_n[i] for i in hh):
                    bad = ("mask", f"after {list(hh)} (state re-stepped) the mask still offers {[i for i in hh if mask_n[i]]}")
                elif dn != (len(hh) >= q):
                    bad = ("done", f"after {list(hh)} done={dn}, quota {q}")
                if bad:
                    p.violation(sig(PID, spec, bad[0], "torchrl_mode_restep"), dict(kind="sel_torchrl", spec=spec.key, instance_id=iid, instance=inst, actions=list(hh)), f"{spec.key} {iid} (_torchrl_mode, same state stepped repeatedly): {bad[1]}")
                    break
                stack.append((hh, nxt))
        p.outcome(f"{spec.key}|torchrl|{'ok' if bad is None else bad[0]}")
    return p


def dispatch(item):
    if item[0] == "torchrl":
        return unit_torchrl(item)
    if item[0] == "unbatched":
        return unit_unbatched(item)
    return unit_mixed(item) if item[0] == "mixed" else unit(item)


def main(tier):
    rep = Report(PID, tier, rule="one case = one reachable state (selection prefix) of one instance, judged for distinctness / forbidden items / done-at-quota / bookkeeping; distinct = distinct (environment, instance, prefix)")
    rep.assumptions = [
        "DPP/MDPP run on synthetic chip files (3x3, 4x4) written to /verif/.cache because the real chip data cannot be downloaded; the decap reward simulator is out of scope",
        "additional parts: generator-made instances with the generator's own mask / distance matrix (DPP, MDPP, FLP incl. 30 locations and unbounded samplers); all selection orders of un-batched DPP / MDPP instances; a depth-first walk in _torchrl_mode that re-steps one state object (FLP, MCP)",
        "the exhaustive per-instance trees use batches whose rows share the quota (the generators never mix quotas); batches with DIFFERENT per-row quotas (FLP, MCP) are stepped separately and judged only up to each row's own quota",
    ]
    seed = seed_from_env()
    only = os.environ.get("VERIF_ONLY")
    items = [(k, tier, seed) for k in SPECS if not only or only in k]
    items += [("mixed", k, tier, seed) for k in ("flp", "mcp") if not only or only in k]
    items += [("unbatched", k, tier, seed) for k in ("dpp", "mdpp") if not only or only in k]
    items += [("torchrl", k, tier, seed) for k in ("flp", "mcp") if not only or only in k]
    rep.merge_all(pmap(dispatch, items))
    rep.extra["environments"] = sorted({i[0] if i[0] not in ("mixed", "unbatched", "torchrl") else i[1] for i in items})
    return rep.finish()


def replay(rec):
    spec = SPECS[rec["spec"]]
    if rec.get("kind") == "sel_torchrl":
        p = unit_torchrl(("torchrl", rec["spec"], "quick", 0))
        return bool(p.violations), "; ".join(v["msg"] for v in p.violations[:2]) or "successors of a re-stepped state follow from the selection so far"
    if rec.get("kind") == "sel_unbatched":
        p = unit_unbatched(("unbatched", rec["spec"], "thorough", rec.get("seed", 0)))
        return bool(p.violations), "; ".join(v["msg"] for v in p.violations[:2]) or "un-batched episodes select exactly the quota of allowed items"
    if rec.get("kind") == "sel_mixed":
        insta, instb = rec["a"]["instance"], rec["b"]["instance"]
        qa, qb = quota_of(spec, insta), quota_of(spec, instb)
        env = spec.env(insta if qa >= qb else instb)
        td = env.reset(torch.cat([spec.td(insta), spec.td(instb)], 0))
        bad = []
        for t, acts in enumerate(rec["actions"]):
            td = E.step_batch(env, td, acts)
            done = E.done_vec(td).tolist()
            for r, q in enumerate((qa, qb)):
                if t + 1 <= q and done[r] != (t + 1 >= q):
                    bad.append(f"row {r}: done={done[r]} after {t + 1} selections, own quota {q}")
        return bool(bad), "; ".join(bad) or "every row finishes at its own quota"
    inst = rec["instance"]
    env = spec.env(inst)
    td, masks, dones = E.run_solo(env, spec.td(inst), rec["actions"])
    h = rec["actions"]
    q = quota_of(spec, inst)
    forb = forbidden(spec, inst)
    admitted = all(masks[t][a] for t, a in enumerate(h))
    bad = []
    if admitted and (len(set(h)) != len(h) or forb & set(h)):
        bad.append("mask admitted a duplicate / forbidden item")
    if dones[-1] != (len(h) >= q):
        bad.append(f"done={dones[-1]} after {len(h)} selections, quota {q}")
    if spec.kind == "flp" and h:
        ref = FLPSpec.distances_after(inst, h)
        if any(abs(a - b) > 1e-5 for a, b in zip(td["distances"][0].tolist(), ref)):
            bad.append("distances bookkeeping differs")
    if spec.kind == "mcp":
        ref = MCPSpec.weights_after(inst, h)
        if any(abs(a - b) > 1e-5 for a, b in zip(td["weights"][0].tolist(), ref)):
            bad.append("weights bookkeeping differs")
    return bool(bad), f"solo replay: admitted={admitted} findings={bad}"
