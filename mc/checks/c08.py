"""C08 — selection environments pick exactly the quota of distinct, allowed items.

E1 over FLP (all quotas 1..n-1), MCP (membership tables with zero padding / duplicate items, quotas), DPP and
MDPP (synthetic 3x3 / 4x4 chips: every probe position, keep-out layouts): ALL mask-admitted selection
orders.  In EVERY explored state (not only at the end):
  chosen items so far are pairwise distinct and none is forbidden (keep-out, probe);
  done is True exactly from step = quota on;
  the bookkeeping shown to the policy equals what follows from the selection so far
  (FLP td['distances'] = min distance to a chosen facility, td['chosen']; MCP td['weights'] = weight of still
  uncovered items, td['chosen']).
At the leaves the reward equals the definition (FLP, MCP).
"""
from __future__ import annotations

import os

import torch

from .. import explore as E
from ..core import Partial, Report, pmap, seed_from_env
from ..rtree import sig
from ..selection import SPECS, FLPSpec, MCPSpec

PID = "C08"


def quota_of(spec, inst):
    return spec.step_bound(inst)


def forbidden(spec, inst):
    if spec.kind in ("dpp", "mdpp"):
        return set(inst["keepout"]) | set(inst["probes"])
    return set()


def unit(item):
    key, tier, seed = item
    spec = SPECS[key]
    p = Partial()
    for iid, inst in spec.instances(tier, seed):
        env = spec.env(inst)
        td0 = spec.td(inst)
        q = quota_of(spec, inst)
        forb = forbidden(spec, inst)
        found = []

        def on_level(depth, states, hists):
            B = len(hists)
            done = E.done_vec(states).tolist()
            chosen_col = states["chosen"].tolist() if "chosen" in states.keys() else None
            book = None
            if spec.kind == "flp" and depth > 0:
                book = states["distances"].tolist()
            if spec.kind == "mcp":
                book = states["weights"].tolist()
            for r in range(B):
                h = hists[r]
                probs = []
                if len(set(h)) != len(h):
                    probs.append(("selection", "duplicate_item", f"item chosen twice in {list(h)}"))
                if forb & set(h):
                    probs.append(("selection", "forbidden_item", f"forbidden item {sorted(forb & set(h))} chosen in {list(h)}"))
                if done[r] != (depth >= q):
                    probs.append(("done", "quota", f"done={done[r]} at step {depth} with quota {q}"))
                if chosen_col is not None:
                    want = [i in set(h) for i in range(len(chosen_col[r]))]
                    if [bool(x) for x in chosen_col[r]] != want:
                        probs.append(("bookkeeping", "chosen", f"td['chosen'] {chosen_col[r]} after {list(h)}"))
                if book is not None:
                    if spec.kind == "flp":
                        ref = FLPSpec.distances_after(inst, h)
                    else:
                        ref = MCPSpec.weights_after(inst, h)
                    if any(abs(a - b) > 1e-5 for a, b in zip(book[r], ref)):
                        probs.append(("bookkeeping", "distances" if spec.kind == "flp" else "weights", f"after {list(h)}: library {book[r]} vs definition {ref}"))
                for pr in probs:
                    found.append((h, pr))

        tree = E.explore(env, td0, on_level=on_level)
        p.add(states=tree.states, transitions=tree.transitions, leaves=len(tree.leaves), trees=1, distinct_count=tree.states, evaluations=tree.states)
        p.maxi(max_depth=tree.max_depth)
        for h in tree.dead:
            found.append((h, ("mask", "dead_end", f"no item on offer after {list(h)} before the quota is reached")))
        if tree.max_depth != q:
            found.append((tree.leaves[0] if tree.leaves else (), ("done", "quota", f"episodes end after {tree.max_depth} selections, quota {q}")))
        if spec.kind in ("flp", "mcp") and tree.leaves:
            rs = E.rewards_of_leaves(env, tree)
            for h, r in zip(tree.leaves, rs):
                ref = FLPSpec.objective(inst, h) if spec.kind == "flp" else MCPSpec.objective(inst, h)
                p.outcome(f"{spec.key}|{round(ref, 4)}")
                if abs(r - ref) > 1e-5 * (1 + abs(ref)):
                    found.append((h, ("reward", "objective", f"reward {r} vs definition {ref} for {list(h)}")))
        for h, (obs, trig, text) in found[:6]:
            p.violation(
                sig(PID, spec, obs, trig),
                dict(kind="sel_trace", spec=spec.key, instance_id=iid, instance=inst, actions=list(h)),
                f"{spec.key} {iid}: {text}",
            )
        p.add(violations_raw=max(0, len(found) - 6))
        for i in E.pick_indices(len(tree.leaves), 3):
            td, masks, dones = E.run_solo(env, td0, tree.leaves[i])
            p.add(traces_validated_against_impl=1)
            if not dones[-1] or any(dones[:-1]):
                p.note(f"{spec.key} {iid}: solo replay disagrees with batched frontier on done (C04)")
        p.sample(dict(env=spec.key, instance=iid, quota=q, states=tree.states, leaves=len(tree.leaves)), cap=1)
    return p


def main(tier):
    rep = Report(PID, tier, rule="one case = one reachable state (selection prefix) of one instance, judged for distinctness / forbidden items / done-at-quota / bookkeeping; distinct = distinct (environment, instance, prefix)")
    rep.assumptions = [
        "DPP/MDPP run on synthetic chip files (3x3, 4x4) written to /verif/.cache because the real chip data cannot be downloaded; the decap reward simulator is out of scope",
        "all rows of a batch share the quota (the generators never mix quotas)",
    ]
    seed = seed_from_env()
    only = os.environ.get("VERIF_ONLY")
    items = [(k, tier, seed) for k in SPECS if not only or only in k]
    rep.merge_all(pmap(unit, items))
    rep.extra["environments"] = sorted(i[0] for i in items)
    return rep.finish()


def replay(rec):
    spec = SPECS[rec["spec"]]
    inst = rec["instance"]
    env = spec.env(inst)
    td, masks, dones = E.run_solo(env, spec.td(inst), rec["actions"])
    h = rec["actions"]
    q = quota_of(spec, inst)
    forb = forbidden(spec, inst)
    admitted = all(masks[t][a] for t, a in enumerate(h))
    bad = []
    if admitted and (len(set(h)) != len(h) or forb & set(h)):
        bad.append("mask admitted a duplicate / forbidden item")
    if dones[-1] != (len(h) >= q):
        bad.append(f"done={dones[-1]} after {len(h)} selections, quota {q}")
    if spec.kind == "flp" and h:
        ref = FLPSpec.distances_after(inst, h)
        if any(abs(a - b) > 1e-5 for a, b in zip(td["distances"][0].tolist(), ref)):
            bad.append("distances bookkeeping differs")
    if spec.kind == "mcp":
        ref = MCPSpec.weights_after(inst, h)
        if any(abs(a - b) > 1e-5 for a, b in zip(td["weights"][0].tolist(), ref)):
            bad.append("weights bookkeeping differs")
    return bool(bad), f"solo replay: admitted={admitted} findings={bad}"
