"""C20 — running statistics and stateful baselines are exact for any training history.

E4 (operation-sequence explorer): ALL sequences of operations up to a depth over a fixed alphabet; every
sequence is replayed on a FRESH REAL object and on an exact reference model (fractions.Fraction, evaluated in
float64) and judged after EVERY step, so non-initial states are covered by construction.

 * RewardScaler(scale) for scale in {None, 2, "norm", "scale"}: operations = "observe batch b", b from an
   alphabet of batches of sizes {1,2,3,5} (plus 2-D shapes, which the scaler flattens) with values from
   {-2, 0, 1, 1e3}: constant batches, single-element batches, mixed batches, plus constant batches of values
   that are not representable in binary (0.1, 1/3, 0.7).
   Reference after each step: mean = (sum of all values seen)/N, std = SAMPLE standard deviation (N-1) of all
   values seen; output = stated transformation of the input batch:
       None -> x;  int k -> x / k;  "norm" -> (x - mean) / (std + eps);  "scale" -> x / (std + eps)
   (eps = torch.finfo(dtype).eps is what the code adds; the reference adds the same eps).
   While fewer than 2 values have been seen the sample std is undefined in the reference too: std / output are
   then NOT judged (only recorded as an outcome class); the mean is.
   While all values seen are equal (sample std = 0 exactly) the quotient by std+eps is ill-conditioned, so the
   std is only required to be a finite number within float round-off of 0 and the output is judged against the
   stated transformation evaluated on the library's own (mean, std).
 * ExponentialBaseline(beta): operations = eval(td, reward batch): v1 = mean(r1), v_k = beta v_{k-1} + (1-beta) mean(r_k);
   returned value, stored state and returned loss (0) after every call.
 * WarmupBaseline(inner, n_epochs, warmup_exp_beta): operations = eval(batch) | epoch_callback(next epoch), all
   interleavings.  alpha after the callback of epoch e must be min(1, (e+1)/n_epochs) (0 before any callback);
   value = alpha * inner + (1-alpha) * EMA-warm-up baseline, loss likewise.  The component baselines are spied
   on, so a component with weight 0 may or may not be evaluated (the property does not say); the reference EMA
   advances exactly on the batches the component really saw.
"""
from __future__ import annotations

import itertools
import math
import os
import random
from fractions import Fraction

import torch
from tensordict import TensorDict

from rl4co.models.rl.common.utils import RewardScaler
from rl4co.models.rl.reinforce.baselines import ExponentialBaseline, REINFORCEBaseline, WarmupBaseline, get_reinforce_baseline

from ..core import Partial, Report, pmap, seed_from_env

PID = "C20"

DT = {"float32": torch.float32, "float64": torch.float64}

# --------------------------------------------------------------------------------------------------
# alphabets
# --------------------------------------------------------------------------------------------------


class Batch:
    """One observed batch: shape + values; exact sums of the values as the tensor really holds them."""

    def __init__(self, values, shape=None):
        self.values = [float(v) for v in values]
        self.shape = list(shape) if shape is not None else [len(self.values)]
        self.n = len(self.values)
        self._t = {}
        self._ex = {}
        self.td = None

    def tensor(self, dtype=torch.float32):
        t = self._t.get(dtype)
        if t is None:
            t = torch.tensor(self.values, dtype=dtype).reshape(self.shape)
            self._t[dtype] = t
        return t

    def exact(self, dtype=torch.float32):
        """(values as Fractions, sum, sum of squares, max |v|, is_constant) of what the tensor holds."""
        e = self._ex.get(dtype)
        if e is None:
            held = self.tensor(dtype).reshape(-1).tolist()
            fr = [Fraction(v) for v in held]
            e = (fr, sum(fr), sum(v * v for v in fr), max(abs(v) for v in held), len(set(held)) == 1, held)
            self._ex[dtype] = e
        return e

    def json(self, op="batch"):
        return dict(op=op, shape=self.shape, values=self.values)

    def short(self):
        if self.n > 1 and len(set(self.values)) == 1:
            s = f"[{self.values[0]:g}]*{self.n}"
        else:
            s = "[" + ",".join(f"{v:g}" for v in self.values) + "]"
        return s + (f"@{'x'.join(map(str, self.shape))}" if len(self.shape) > 1 else "")


def _random_batches(seed, k):
    rng = random.Random(1000003 * seed + 20)
    out = []
    for _ in range(k):
        n = rng.choice([1, 2, 3, 5])
        mag = rng.choice([0.1, 1.0, 100.0])
        out.append(Batch([round(rng.gauss(0.0, 1.0) * mag, 4) for _ in range(n)]))
    return out


def scaler_alphabet(tier, seed):
    V = [-2.0, 0.0, 1.0, 1e3]
    a = []
    for n in (1, 2, 3, 5):  # single-element and constant batches of every size
        for v in V:
            a.append(Batch([v] * n))
    a += [Batch(b) for b in ([-2, 0], [0, 1], [1, 1e3], [-2, 1e3], [1e3, 0], [1, -2])]  # all mixed pairs
    a += [Batch(b) for b in ([-2, 0, 1], [0, 1, 1], [1, 1, 1e3], [1e3, 1e3, -2], [1e3, 0, -2])]
    a += [Batch(b) for b in ([-2, 0, 1, 1, 1e3], [1e3, 1, 1, 0, -2], [1, 1, 1, 1, 0], [1e3, 1e3, 1e3, 1e3, -2])]
    # constant batches of values that are not binary fractions (round-off in the running mean)
    a += [Batch([0.1] * 3), Batch([0.7] * 5)]
    # multi-dimensional batches (multi-start / augmentation advantages are [batch, starts]): every VALUE counts
    a += [Batch([-2, 0, 1, 1, 1e3, 0], shape=[2, 3]), Batch([1, 0, -2, 1], shape=[2, 2])]
    if tier == "thorough":
        a += [Batch([1.0 / 3] * 2), Batch([-2, 0, 1e3], shape=[1, 3]), Batch([1, 1, 1, 1, 1], shape=[5, 1])]
    a += _random_batches(seed, 1)
    return a


def reward_alphabet(tier, seed, small=False):
    a = [Batch([1.0]), Batch([-2, 0]), Batch([1e3, 1, 1, 0, -2])]
    if small and tier == "quick":
        return a
    a += [Batch([1, 1, 1]), Batch([0.1, 0.7])]
    if small:
        return a
    a += [Batch([0.0, 0.0]), Batch([1e3]), Batch([-2, 0, 1])]
    if tier == "thorough":
        a += [Batch([1, 1e3, 1, 1e3], shape=[2, 2]), Batch([1.0 / 3] * 3)]
    a += _random_batches(seed + 7, 1)
    return a


# --------------------------------------------------------------------------------------------------
# configurations
# --------------------------------------------------------------------------------------------------


def cfg_str(kind, cfg):
    if kind == "reward_scaler":
        s = f"scale={cfg['scale']}"
        if cfg.get("dtype", "float32") != "float32":
            s += f",dtype={cfg['dtype']}"
        return s
    if kind == "exponential_baseline":
        return f"beta={cfg['beta']:g}" + (f",by_name={cfg['factory']}" if cfg.get("factory") else "")
    return f"inner={cfg['inner']},n_epochs={cfg['n_epochs']},warmup_beta={cfg['warmup_exp_beta']:g}"


def configs(tier):
    """list of (kind, cfg, depth)"""
    quick = tier == "quick"
    out = []
    d = 3 if quick else 4
    out.append(("reward_scaler", dict(scale="norm"), d))
    out.append(("reward_scaler", dict(scale="scale"), d))
    # None / int never touch the running state: depth 3 is already redundant
    out.append(("reward_scaler", dict(scale=None), 2 if quick else 3))
    out.append(("reward_scaler", dict(scale=2), 2 if quick else 3))
    if not quick:
        out.append(("reward_scaler", dict(scale="norm", dtype="float64"), 3))
        out.append(("reward_scaler", dict(scale="scale", dtype="float64"), 3))
    for beta in ([0.0, 0.5, 0.8] if quick else [0.0, 0.5, 0.8, 0.95]):
        out.append(("exponential_baseline", dict(beta=beta), 4 if quick else 5))
    out.append(("exponential_baseline", dict(beta=0.0, factory="mean"), 4 if quick else 5))
    out.append(("exponential_baseline", dict(beta=0.5, factory="exponential"), 3 if quick else 4))
    for m in ("AttentionModel", "MDAM", "PointerNetwork"):
        out.append(("exponential_baseline", dict(beta=0.5, factory=f"model:{m}"), 3))
    for inner in ("stub", "exp"):
        for n in (1, 2, 4):
            for wb in ([0.8] if quick else [0.8, 0.5]):
                out.append(("warmup_baseline", dict(inner=inner, n_epochs=n, warmup_exp_beta=wb), 5 if quick else 6))
    # built by name through get_reinforce_baseline (evals during the warm-up phase only: the rollout baseline behind it
    # needs a policy and a dataset and is C16's / C17's business)
    for n in (1, 2):
        for wb in (0.8, 0.5, 0.3):
            out.append(("warmup_factory", dict(inner="factory", n_epochs=n, warmup_exp_beta=wb), 3 if quick else 4))
    return out


def alphabet_for(kind, tier, seed):
    if kind == "reward_scaler":
        return scaler_alphabet(tier, seed)
    if kind == "exponential_baseline":
        return reward_alphabet(tier, seed)
    if kind == "warmup_factory":
        return reward_alphabet(tier, seed, small=True)
    return reward_alphabet(tier, seed, small=True) + ["cb"]


# --------------------------------------------------------------------------------------------------
# helpers
# --------------------------------------------------------------------------------------------------


def _num(x):
    """library number (tensor / python scalar) -> python float"""
    if isinstance(x, torch.Tensor):
        return float(x.detach().reshape(-1)[0]) if x.numel() == 1 else float("nan")
    return float(x)


def _flat(x, n):
    """library value broadcast to n entries as python floats"""
    if isinstance(x, torch.Tensor):
        v = x.detach().to(torch.float64).reshape(-1).tolist()
    else:
        v = [float(x)]
    if len(v) == 1:
        v = v * n
    return v


def _close(a, b, tol):
    if math.isnan(a) or math.isnan(b) or math.isinf(a) or math.isinf(b):
        return False
    return abs(a - b) <= tol


def _pos_trigger(k):
    return ("first", "second", "later")[min(k, 2)]


class Problem:
    __slots__ = ("step", "observable", "trigger", "text")

    def __init__(self, step, observable, trigger, text):
        self.step, self.observable, self.trigger, self.text = step, observable, trigger, text


# --------------------------------------------------------------------------------------------------
# RewardScaler
# --------------------------------------------------------------------------------------------------


def scaler_trigger(k, n_seen, hist_const, hist_val, b_n, b_const):
    if n_seen < 2:
        return "single_value_history"
    if hist_const:
        return "constant_history" if float(hist_val).is_integer() else "constant_history_fractional"
    if b_n == 1:
        return "single_value_batch"
    if b_const:
        return "constant_batch"
    return _pos_trigger(k) + "_update"


def run_scaler(cfg, batches, first_new=0, outcomes=None):
    """Replay one sequence on a fresh RewardScaler; judge steps >= first_new. -> (problems, ops_applied, judged)"""
    scale = cfg["scale"]
    dtname = cfg.get("dtype", "float32")
    dtype = DT[dtname]
    eps = float(torch.finfo(dtype).eps)
    # float32 accumulators against an exact reference; float64 inputs still take the sqrt in float32 (".float()")
    tol_mean = 1e-5 if dtname == "float32" else 1e-12
    tol_std = 1e-4 if dtname == "float32" else 1e-6
    tol_out = 1e-4 if dtname == "float32" else 1e-6
    tol_zero = 2e-3 if dtname == "float32" else 1e-6  # sqrt(float eps) scale: std of an all-equal history
    sc = RewardScaler(scale)
    probs = []
    N = 0
    S = Fraction(0)
    Q = Fraction(0)
    mx = 0.0
    hist_const, hist_val = True, None
    applied = judged = 0
    for k, b in enumerate(batches):
        fr, s_b, q_b, mx_b, b_const, held = b.exact(dtype)
        x = b.tensor(dtype).clone()
        N += b.n
        S += s_b
        Q += q_b
        mx = max(mx, mx_b)
        if hist_val is None:
            hist_val = held[0]
        hist_const = hist_const and b_const and held[0] == hist_val
        trig = scaler_trigger(k, N, hist_const, hist_val, b.n, b_const)
        try:
            out = sc(x)
            applied += 1
        except Exception as e:  # no operation of the alphabet is documented to raise
            if k >= first_new:
                probs.append(Problem(k, f"crash:{type(e).__name__}", trig, f"step {k}: {type(e).__name__}: {e}"))
            break
        if k < first_new:
            continue
        judged += 1
        out_l = out.detach().to(torch.float64).reshape(-1).tolist()
        out_shape = list(out.shape)
        if out_shape != b.shape or len(out_l) != b.n:
            probs.append(Problem(k, "output", trig, f"step {k}: output shape {out_shape} for input shape {b.shape}"))
            continue
        if scale is None or isinstance(scale, int):
            want = held if scale is None else [v / scale for v in held]
            bad = [i for i in range(b.n) if not _close(out_l[i], want[i], 1e-6 * (1 + abs(want[i])))]
            if outcomes is not None:
                outcomes.add(f"scaler|{cfg_str('reward_scaler', cfg)}|stateless")
            if bad:
                probs.append(Problem(k, "output", trig, f"step {k}: output {out_l} vs stated transformation {want}"))
            continue
        # ---- running statistics
        mean_ref = float(S / N)
        mean_lib = _num(sc.mean)
        scale_mag = max(mx, 1e-30)
        if not _close(mean_lib, mean_ref, tol_mean * max(1.0, mx)):
            probs.append(Problem(k, "mean", trig, f"step {k}: running mean {mean_lib!r} vs mean of the {N} values seen {mean_ref!r}"))
        if N < 2:
            # sample std of one value is undefined: nothing is demanded of std / output
            if outcomes is not None:
                o = out_l[0]
                outcomes.add(f"scaler|{cfg_str('reward_scaler', cfg)}|count<2|out={'nan' if math.isnan(o) else 'inf' if math.isinf(o) else 'finite'}")
            continue
        var_ref = (Q - S * S / N) / (N - 1)
        std_ref = math.sqrt(float(var_ref)) if var_ref > 0 else 0.0
        try:  # the std the library derives from its own accumulators (same expression as __call__)
            var_lib = _num(sc.M2) / (int(sc.count) - 1)
            # M2 is an internal accumulator: a rounding-sized negative value is not observable by itself; what the
            # caller sees is the OUTPUT, which is judged below against the clamped value (a NaN output is reported there)
            if -1e-6 * scale_mag * scale_mag <= var_lib < 0:
                var_lib = 0.0
            std_lib = math.sqrt(var_lib) if var_lib >= 0 else float("nan")
        except ZeroDivisionError:
            var_lib, std_lib = float("nan"), float("nan")
        well = std_ref >= 1e-2 * scale_mag
        if outcomes is not None:
            outcomes.add(
                f"scaler|{cfg_str('reward_scaler', cfg)}|{trig}|std={'nan' if math.isnan(std_lib) else 'zero' if std_lib == 0 else 'pos'}"
            )
        std_ok = True
        if well:
            if not _close(std_lib, std_ref, tol_std * std_ref):
                std_ok = False
                probs.append(Problem(k, "std", trig, f"step {k}: running std {std_lib!r} (M2={_num(sc.M2)!r}, count={sc.count}) vs sample std of the {N} values seen {std_ref!r}"))
        else:
            if not _close(std_lib, std_ref, tol_zero * scale_mag):
                std_ok = False
                probs.append(
                    Problem(k, "std", trig, f"step {k}: running std {std_lib!r} (M2={_num(sc.M2)!r}, count={sc.count}) vs sample std {std_ref!r} of the {N} values seen (|values| <= {mx:g})")
                )
        if not std_ok:
            continue  # the output is a consequence; one report per step
        # ---- output = stated transformation
        def transform(mean, std):
            if scale == "norm":
                return [(v - mean) / (std + eps) for v in held]
            return [v / (std + eps) for v in held]

        if well:
            want = transform(mean_ref, std_ref)
            m = max(abs(w) for w in want)
            bad = [i for i in range(b.n) if not _close(out_l[i], want[i], tol_out * (1.0 + m))]
            if bad:
                probs.append(Problem(k, "output", trig, f"step {k}: output {out_l} vs stated transformation with reference statistics {want}"))
        else:
            std32 = float(torch.tensor(var_lib, dtype=torch.float64).float().sqrt()) if dtname == "float64" else std_lib
            want = transform(mean_lib, std32)
            bad = [i for i in range(b.n) if not _close(out_l[i], want[i], 1e-4 * abs(want[i]) + 1e-30)]
            if bad:
                probs.append(Problem(k, "output", trig, f"step {k}: output {out_l} vs stated transformation of the library's own statistics {want}"))
    return probs, applied, judged


# --------------------------------------------------------------------------------------------------
# ExponentialBaseline
# --------------------------------------------------------------------------------------------------


def _td_for(b):
    if b.td is None:
        b.td = TensorDict({}, batch_size=[b.shape[0]])
    return b.td


def run_exp(cfg, batches, first_new=0, outcomes=None):
    beta = float(cfg["beta"])
    fb = Fraction(beta)
    if cfg.get("factory") == "mean":
        bl = get_reinforce_baseline("mean")  # documented as the EMA recurrence with beta = 0: the current batch mean
    elif cfg.get("factory") == "exponential":
        bl = get_reinforce_baseline("exponential", beta=beta)
    elif str(cfg.get("factory", "")).startswith("model:"):
        # the way users configure it: <ZooModel>(env, baseline="exponential", baseline_kwargs={"beta": ...})
        import rl4co.models.zoo as zoo
        from rl4co.envs import TSPEnv

        bl = getattr(zoo, cfg["factory"][6:])(TSPEnv(generator_params=dict(num_loc=5)), baseline="exponential", baseline_kwargs=dict(beta=beta), policy_kwargs=dict(embed_dim=16, num_encoder_layers=1, num_heads=2) if cfg["factory"][6:] != "PointerNetwork" else {}).baseline
    else:
        bl = ExponentialBaseline(beta=beta)
    probs = []
    v = None
    mx = 0.0
    applied = judged = 0
    for k, b in enumerate(batches):
        fr, s_b, q_b, mx_b, b_const, held = b.exact(torch.float32)
        mx = max(mx, mx_b)
        m = s_b / b.n
        v = m if v is None else fb * v + (1 - fb) * m
        trig = _pos_trigger(k) + "_call"
        try:
            val, loss = bl.eval(_td_for(b), b.tensor().clone())
            applied += 1
        except Exception as e:
            if k >= first_new:
                probs.append(Problem(k, f"crash:{type(e).__name__}", trig, f"call {k}: {type(e).__name__}: {e}"))
            break
        if k < first_new:
            continue
        judged += 1
        tol = 1e-5 * max(1.0, mx)
        want = float(v)
        got = _num(val)
        if outcomes is not None:
            outcomes.add(f"exp|beta={beta:g}|{trig}|{'const' if b_const else 'mixed'}")
        if not _close(got, want, tol):
            probs.append(Problem(k, "value", trig, f"call {k}: returned {got!r} vs recurrence {want!r} (beta={beta:g})"))
        elif not _close(_num(bl.v), want, tol):
            probs.append(Problem(k, "value", trig, f"call {k}: stored v {_num(bl.v)!r} vs recurrence {want!r}"))
        if not _close(_num(loss), 0.0, 0.0):
            probs.append(Problem(k, "loss", trig, f"call {k}: loss {loss!r}, the exponential baseline has no loss"))
    return probs, applied, judged


# --------------------------------------------------------------------------------------------------
# WarmupBaseline
# --------------------------------------------------------------------------------------------------

_STUB_CLS = None


def stub_cls():
    """Stateless inner baseline with a per-sample value and a non-zero loss (both pure functions of the reward)."""
    global _STUB_CLS
    if _STUB_CLS is None:
        class StubBaseline(REINFORCEBaseline):
            def __init__(self):
                super().__init__()
                self.cb = []

            def eval(self, td, reward, env=None):
                r = reward.detach()
                return 2.0 * r + 1.0, 0.25 + 0.5 * (r * r).mean()

            def epoch_callback(self, *args, **kw):
                self.cb.append((args, dict(kw)))

        _STUB_CLS = StubBaseline
    return _STUB_CLS


class _Spy:
    def __init__(self, fn):
        self.fn = fn
        self.last = None

    def __call__(self, td, reward, env=None):
        self.last = "called"
        return self.fn(td, reward, env)


def run_warmup(cfg, ops, first_new=0, outcomes=None, notes=None):
    """ops: Batch (= eval) or ("cb", epoch)."""
    n_ep = int(cfg["n_epochs"])
    wbeta = Fraction(float(cfg["warmup_exp_beta"]))
    if cfg["inner"] == "factory":
        # the way REINFORCE(baseline="rollout", baseline_kwargs=...) builds it: warm-up EMA in front of a rollout baseline
        w = get_reinforce_baseline("rollout", n_epochs=n_ep, exp_beta=float(cfg["warmup_exp_beta"]))
        inner = w.baseline
    else:
        inner = stub_cls()() if cfg["inner"] == "stub" else ExponentialBaseline(beta=0.5)
        w = WarmupBaseline(inner, n_epochs=n_ep, warmup_exp_beta=float(cfg["warmup_exp_beta"]))
    spy_i = _Spy(inner.eval)
    inner.eval = spy_i
    spy_w = _Spy(w.warmup_baseline.eval)
    w.warmup_baseline.eval = spy_w
    policy, env = object(), object()
    probs = []
    alpha = Fraction(0)
    v_w = None  # reference EMA of the warm-up baseline over the batches it saw
    v_i = None  # reference EMA (beta 1/2) of the 'exp' inner baseline over the batches it saw
    mx = 0.0
    n_eval = n_cb = 0
    applied = judged = 0
    for k, op in enumerate(ops):
        if not isinstance(op, Batch):
            epoch = op[1]
            n_cb += 1
            trig = f"callback_{_pos_trigger(n_cb - 1)}"
            kw = dict(env=env, batch_size=4, device="cpu", epoch=epoch, dataset_size=8)
            try:
                w.epoch_callback(policy, **kw)  # exactly how REINFORCE.on_train_epoch_end calls it
                applied += 1
            except Exception as e:
                if k >= first_new:
                    probs.append(Problem(k, f"crash:{type(e).__name__}", trig, f"op {k} epoch_callback(epoch={epoch}): {type(e).__name__}: {e}"))
                break
            alpha = min(Fraction(1), Fraction(epoch + 1, n_ep))
            if k < first_new:
                continue
            judged += 1
            if outcomes is not None:
                outcomes.add(f"warmup|n={n_ep}|alpha={alpha}")
            if not _close(float(w.alpha), float(alpha), 1e-12):
                probs.append(Problem(k, "alpha", trig, f"op {k}: alpha {w.alpha!r} after epoch_callback(epoch={epoch}) with n_epochs={n_ep}; stated weight min(1,(epoch+1)/n_epochs) = {float(alpha)!r}"))
            if notes is not None and cfg["inner"] == "stub":
                got = inner.cb[-1] if len(inner.cb) == n_cb else None
                if got is None or got[0] != (policy,) or got[1] != kw:
                    notes.add("WarmupBaseline.epoch_callback did not forward its arguments unchanged to the wrapped baseline (not part of C20)")
            continue
        b = op
        n_eval += 1
        fr, s_b, q_b, mx_b, b_const, held = b.exact(torch.float32)
        mx = max(mx, mx_b)
        phase = "warmup_only" if alpha == 0 else "inner_only" if alpha == 1 else "mixed"
        trig = f"eval_{phase}_{_pos_trigger(n_eval - 1)}"
        spy_i.last = spy_w.last = None
        try:
            val, loss = w.eval(_td_for(b), b.tensor().clone(), None)
            applied += 1
        except Exception as e:
            if k >= first_new:
                probs.append(Problem(k, f"crash:{type(e).__name__}", trig, f"op {k} eval({b.short()}): {type(e).__name__}: {e}"))
            break
        m = s_b / b.n
        if spy_w.last:
            v_w = m if v_w is None else wbeta * v_w + (1 - wbeta) * m
        if spy_i.last and cfg["inner"] == "exp":
            v_i = m if v_i is None else Fraction(1, 2) * v_i + Fraction(1, 2) * m
        if k < first_new:
            continue
        judged += 1
        if outcomes is not None:
            outcomes.add(f"warmup|{cfg['inner']}|n={n_ep}|{phase}|inner={'y' if spy_i.last else 'n'}|ema={'y' if spy_w.last else 'n'}")
        a = float(alpha)
        if (alpha > 0 and not spy_i.last) or (alpha < 1 and not spy_w.last):
            which = "wrapped baseline" if (alpha > 0 and not spy_i.last) else "warm-up baseline"
            probs.append(Problem(k, "value", trig, f"op {k}: weight alpha={a} but the {which} (non-zero weight) was not evaluated"))
            continue
        # component values (reference)
        if cfg["inner"] == "stub":
            vb = [2.0 * x + 1.0 for x in held]
            lb = 0.25 + 0.5 * float(q_b / b.n)
        else:
            vb = [float(v_i)] * b.n if v_i is not None else None
            lb = 0.0
        vw = float(v_w) if v_w is not None else None
        if alpha == 1:
            want_v, want_l = vb, lb
        elif alpha == 0:
            want_v, want_l = [vw] * b.n, 0.0
        else:
            want_v = [a * x + (1 - a) * vw for x in vb]
            want_l = a * lb + (1 - a) * 0.0
        got_v = _flat(val, b.n)
        tol = 1e-5 * max(1.0, 2 * mx + 1)
        if len(got_v) != b.n or any(not _close(g, x, tol) for g, x in zip(got_v, want_v)):
            probs.append(Problem(k, "value", trig, f"op {k}: eval({b.short()}) returned {got_v} vs alpha*baseline+(1-alpha)*warmup = {want_v} (alpha={a})"))
        got_l = _num(loss)
        if not _close(got_l, want_l, 1e-5 * max(1.0, mx * mx)):
            probs.append(Problem(k, "loss", trig, f"op {k}: loss {got_l!r} vs alpha*loss_baseline+(1-alpha)*0 = {want_l!r} (alpha={a})"))
    return probs, applied, judged


# --------------------------------------------------------------------------------------------------
# exploration
# --------------------------------------------------------------------------------------------------

RUN = {"reward_scaler": run_scaler, "exponential_baseline": run_exp, "warmup_baseline": run_warmup, "warmup_factory": run_warmup}


def materialise(kind, alphabet, idx):
    """index sequence -> operation list (warm-up callbacks get consecutive epochs 0,1,2,...)"""
    if kind != "warmup_baseline":
        return [alphabet[i] for i in idx]
    ops, e = [], 0
    for i in idx:
        if alphabet[i] == "cb":
            ops.append(("cb", e))
            e += 1
        else:
            ops.append(alphabet[i])
    return ops


def ops_json(kind, ops):
    out = []
    for op in ops:
        if isinstance(op, Batch):
            out.append(op.json("batch" if kind == "reward_scaler" else "eval"))
        else:
            out.append(dict(op="epoch_callback", epoch=op[1]))
    return out


def ops_from_json(lst):
    return [Batch(o["values"], o.get("shape")) if o["op"] in ("batch", "eval") else ("cb", int(o["epoch"])) for o in lst]


def ops_short(ops):
    return " ; ".join(op.short() if isinstance(op, Batch) else f"epoch_callback({op[1]})" for op in ops)


def nontrivial(kind, ops):
    if kind == "reward_scaler":
        return sum(op.n for op in ops) >= 2
    if kind in ("exponential_baseline", "warmup_factory"):
        return len(ops) >= 2
    return any(isinstance(o, Batch) for o in ops) and any(not isinstance(o, Batch) for o in ops)


def unit_hook(item):
    """The warm-up weight is advanced by REINFORCE.on_train_epoch_end (one epoch_callback per finished epoch).  A real
    REINFORCE module (TSP-4, tiny attention policy, WarmupBaseline around a stateless stub) is driven through every
    training history (n_epochs, epochs of a first fit, epochs of a continued fit) within the bounds with a stub trainer
    that supplies current_epoch / max_epochs exactly as Lightning does; after the end of epoch e the weight must be
    min(1, (e+1)/n_epochs)."""
    import types

    from rl4co.envs import TSPEnv
    from rl4co.models.rl import REINFORCE
    from rl4co.models.zoo.am import AttentionModelPolicy

    _, tier, seed = item
    p = Partial()
    env = TSPEnv(generator_params=dict(num_loc=4))
    torch.manual_seed(5)
    policy = AttentionModelPolicy(env_name="tsp", embed_dim=16, num_encoder_layers=1, num_heads=2)
    top = 3 if tier == "quick" else 4
    for n_ep in range(1, top + 1):
        for e1 in range(1, top + 1):
            for e2 in range(0, 3 if tier == "quick" else 4):
                w = WarmupBaseline(stub_cls()(), n_epochs=n_ep)
                m = REINFORCE(env, policy, baseline=w, batch_size=1, train_data_size=2, val_data_size=2, test_data_size=2)
                m._trainer = None
                m.setup()
                hist = [(e, e1) for e in range(e1)] + [(e, e1 + e2) for e in range(e1, e1 + e2)]
                rec = dict(kind="reinforce_hook", n_epochs=n_ep, first_fit=e1, continued=e2)
                for e, mx in hist:
                    m._trainer = types.SimpleNamespace(max_epochs=mx, current_epoch=e, strategy=None)
                    try:
                        m.on_train_epoch_end()
                    except Exception as ex:  # noqa: BLE001
                        p.violation(dict(property=PID, env="reinforce_hook", config=f"n_epochs={n_ep}", observable=f"crash:{type(ex).__name__}", trigger="epoch_end"), rec, f"REINFORCE.on_train_epoch_end(epoch {e} of {mx}) raised {type(ex).__name__}: {str(ex)[:120]}")
                        break
                    finally:
                        m._trainer = None
                    want = min(1.0, (e + 1) / n_ep)
                    p.add(states=1, transitions=1, evaluations=1, distinct_count=1)
                    p.outcome(f"hook|n={n_ep}|alpha={want:.3f}")
                    if not _close(float(w.alpha), want, 1e-12):
                        trig = "last_epoch_of_fit" if e == mx - 1 else "mid_fit"
                        p.violation(dict(property=PID, env="reinforce_hook", config=f"n_epochs={n_ep}", observable="alpha", trigger=trig), rec, f"REINFORCE + WarmupBaseline(n_epochs={n_ep}): after the end of epoch {e} (fit to max_epochs={mx}; history: {e1} epoch(s){' then continued for ' + str(e2) if e2 else ''}) the warm-up weight is {w.alpha!r}, stated min(1,(epoch+1)/n_epochs) = {want!r}")
                        break
    p.sample(dict(object="REINFORCE.on_train_epoch_end -> WarmupBaseline.epoch_callback", n_epochs=f"1..{top}", fits=f"1..{top} epochs, continued by 0..{2 if tier == 'quick' else 3}"), cap=1)
    return p


def unit_stepwise(item):
    """Use site of the reward scaler in the step-wise PPO trainer: every step reward stored in the replay buffer must be
    the stated transformation (None: x; int k: x/k; 'scale': x/(std+eps); 'norm': (x-mean)/(std+eps), running statistics
    over ALL step rewards observed so far) of the raw reward the environment returned for that step.  The real
    L2DPPOModel is driven for three consecutive batches (mc/stepwise.py)."""
    import math

    from ..stepwise import run_stepwise

    _, env_name, scale, tier, seed = item
    p = Partial()
    try:
        obs = run_stepwise(env_name, reward_scale=scale, rounds=3 if tier == "quick" else 5, seed=seed)
    except Exception as e:  # noqa: BLE001
        p.violation(dict(property=PID, env="stepwise_ppo", config=f"{env_name}|scale={scale}", observable=f"crash:{type(e).__name__}", trigger="training_round"), dict(kind="stepwise", env_name=env_name, scale=scale), f"StepwisePPO({env_name}, reward_scale={scale!r}): a training round raised {type(e).__name__}: {str(e)[:120]}")
        return p
    vals = []
    for k, (raw, stored) in enumerate(obs["rewards"]):
        x = raw.double().reshape(-1)
        if scale is None:
            want = x
        elif isinstance(scale, int):
            want = x / scale
        else:
            vals += x.tolist()
            n = len(vals)
            mean = sum(vals) / n
            std = math.sqrt(sum((v - mean) ** 2 for v in vals) / (n - 1)) if n > 1 else float("nan")
            eps = torch.finfo(torch.float32).eps
            want = (x - mean) / (std + eps) if scale == "norm" else x / (std + eps)
        p.add(states=1, transitions=1, evaluations=int(x.numel()), distinct_count=1)
        got = stored.double().reshape(-1)
        ok = got.shape == want.shape and bool(((got - want).abs() <= 1e-3 * (1 + want.abs())).logical_or(torch.isnan(want) & torch.isnan(got)).all())
        p.outcome(f"stepwise|{scale}|{'ok' if ok else 'bad'}")
        if not ok:
            p.violation(dict(property=PID, env="stepwise_ppo", config=f"{env_name}|scale={scale}", observable="stored_reward", trigger="first_step" if k == 0 else "later_step"), dict(kind="stepwise", env_name=env_name, scale=scale, step=k), f"StepwisePPO({env_name}, reward_scale={scale!r}) step {k}: raw step rewards {x.tolist()} are stored as {got.tolist()}, stated transformation gives {want.tolist()}")
            break
    p.sample(dict(object="StepwisePPO reward scaling", env=env_name, reward_scale=str(scale), steps=len(obs["rewards"])), cap=1)
    return p


def dispatch(item):
    if item[0] == "stepwise":
        return unit_stepwise(item)
    return unit_hook(item) if item[0] == "hook" else unit(item)


def unit(item):
    kind, cfg, depth, tier, seed, first = item
    p = Partial()
    alphabet = alphabet_for(kind, tier, seed)
    A = len(alphabet)
    run = RUN[kind]
    outcomes, notes = set(), set()
    cs = cfg_str(kind, cfg)
    n_leaves = 0
    for rest in itertools.product(range(A), repeat=depth - 1):
        idx = (first,) + rest
        tz = 0
        for i in reversed(rest):
            if i != 0:
                break
            tz += 1
        first_new = depth - 1 - tz  # earlier prefixes were judged under a lexicographically smaller leaf
        ops = materialise(kind, alphabet, idx)
        if kind in ("warmup_baseline", "warmup_factory"):
            probs, applied, judged = run(cfg, ops, first_new, outcomes, notes)
        else:
            probs, applied, judged = run(cfg, ops, first_new, outcomes)
        n_leaves += 1
        nt = sum(1 for k in range(first_new, depth) if nontrivial(kind, ops[: k + 1]))
        p.add(states=depth - first_new, transitions=applied, evaluations=judged, distinct_count=nt, sequences=1)
        for pr in probs:
            upto = ops[: pr.step + 1]
            p.violation(
                dict(property=PID, env=kind, config=cs, observable=pr.observable, trigger=pr.trigger),
                dict(kind=kind, config=cfg, ops=ops_json(kind, upto), step=pr.step, observable=pr.observable),
                f"{kind}({cs}) after [{ops_short(upto)}]: {pr.text}",
            )
    p.maxi(max_depth=depth)
    for o in outcomes:
        p.outcome(o)
    for n in notes:
        p.note(n)
    if first == 0:
        p.add(states=1)  # the empty prefix (fresh object) of this configuration
        p.sample(dict(object=kind, config=cs, depth=depth, alphabet=[a.short() if isinstance(a, Batch) else "epoch_callback(next)" for a in alphabet]), cap=1)
    return p


def build_items(tier, seed):
    only = os.environ.get("VERIF_ONLY")
    items = []
    for kind, cfg, depth in configs(tier):
        if only and only not in kind and only not in cfg_str(kind, cfg):
            continue
        A = len(alphabet_for(kind, tier, seed))
        for first in range(A):
            items.append((kind, cfg, depth, tier, seed, first))
    # heavy units first so the pool drains evenly
    items.sort(key=lambda it: -(len(alphabet_for(it[0], tier, seed)) ** (it[2] - 1)) * (3 if it[1].get("scale") in ("norm", "scale") else 1))
    return items


def main(tier):
    rep = Report(
        PID,
        tier,
        level="model_checking",
        rule="one state = one distinct operation-sequence prefix (configuration, ops so far) replayed on a fresh real object and judged once against the exact reference after its last operation; distinct = prefixes with >= 2 values seen (scaler), >= 2 calls (EMA), >= 1 eval and >= 1 epoch callback (warm-up)",
    )
    rep.assumptions = [
        "float32 accumulators are compared with an exact (Fraction) reference at relative 1e-5 (mean, EMA) / 1e-4 (std, output); float64 inputs at 1e-12 (mean) / 1e-6 (std, output: the code takes the square root in float32)",
        "while fewer than 2 values were observed the sample std is undefined: std / scaled output are not judged (recorded as an outcome class only), the mean is",
        "while all observed values are equal (sample std 0) the std must be finite and within float round-off (2e-3 x magnitude) of 0, and the output is judged as the stated transformation of the library's own (mean, std) because x/(std+eps) is ill-conditioned there",
        "eps = torch.finfo(dtype).eps added to the std is part of the stated transformation (code comment 'Score scaling'); a float scale factor (2.0) is not a documented mode (raises ValueError) and is not judged",
        "epoch callbacks arrive in training order (epoch 0,1,2,... as Lightning issues them); a fresh WarmupBaseline first called with epoch >= n_epochs (resumed run) keeps alpha = 0 and is outside this property",
        "warm-up components with weight 0 may or may not be evaluated; the reference EMA advances on exactly the batches the component saw (spied)",
        "VERIF_SEED only adds random batches after the fixed alphabet; the fixed alphabet carries the exhaustive claim",
    ]
    seed = seed_from_env()
    items = build_items(tier, seed)
    hook_items = [("hook", tier, seed)] if not os.environ.get("VERIF_ONLY") or "hook" in os.environ.get("VERIF_ONLY") else []
    only_ = os.environ.get("VERIF_ONLY")
    step_items = [("stepwise", e, sc, tier, seed) for e in (("fjsp",) if tier == "quick" else ("fjsp", "jssp")) for sc in (None, "scale", 5, "norm") if not only_ or "stepwise" in only_]
    rep.merge_all(pmap(dispatch, hook_items + step_items + items))
    # every enumerated operation sequence is executed on a fresh REAL object (there is no separate model whose traces
    # would need replaying): all of them count as validated against the implementation
    rep.stats["traces_validated_against_impl"] = rep.stats.get("evaluations", 0)
    rep.extra["configurations"] = sorted({f"{it[0]}:{cfg_str(it[0], it[1])}:depth{it[2]}" for it in items})
    rep.extra["alphabet_sizes"] = {k: len(alphabet_for(k, tier, seed)) for k in RUN}
    return rep.finish()


def replay(rec):
    if rec.get("kind") == "stepwise":
        p = unit_stepwise(("stepwise", rec["env_name"], rec["scale"], "quick", 0))
        return bool(p.violations), "; ".join(v["msg"] for v in p.violations[:2]) or "stored rewards are the stated transformation"
    if rec.get("kind") == "reinforce_hook":
        p = unit_hook(("hook", "thorough", 0))
        hit = [v for v in p.violations if v["replay"].get("n_epochs") == rec["n_epochs"] and v["replay"].get("first_fit") == rec["first_fit"] and v["replay"].get("continued") == rec["continued"]]
        return bool(hit), "; ".join(v["msg"] for v in hit[:2]) or "warm-up weight follows the schedule"
    kind = rec["kind"]
    cfg = rec["config"]
    ops = ops_from_json(rec["ops"])
    if kind in ("warmup_baseline", "warmup_factory"):
        probs, applied, judged = run_warmup(cfg, ops, 0, None, None)
    else:
        probs, applied, judged = RUN[kind](cfg, ops, 0, None)
    want = rec.get("observable")
    hit = [pr for pr in probs if want is None or pr.observable == want] or probs
    text = f"{kind}({cfg_str(kind, cfg)}) [{ops_short(ops)}]: " + ("; ".join(pr.text for pr in hit) if hit else f"all {judged} steps agree with the reference")
    return bool(hit), text
