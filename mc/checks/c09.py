"""C09 — improvement environments keep tours valid and best-so-far bookkeeping exact.

(a) E1 graph mode on the real `env.step`: from EVERY valid tour of a small instance as initial state, every move
    the environment's move mask admits (2-opt: all ordered pairs i != j; PDP ruin-repair: all (pair, first,
    second) with get_mask true), then all sequences of admitted moves up to a depth; states are merged on
    (rec_current, rec_best) (bit-identical futures).
(b) E3 over `env._random_action` for k = 2, 3, 4 and PDP ruin-repair: every answer of its multinomial calls
    (rand draws: default + patterns within the deviation bound) => every move the sampler can emit.
(c) E3 over the bundled policies (DACT, NeuOpt, N2S; tiny random weights, decode_type='sampling'): every
    positive-probability answer of their internal multinomials, one and two steps deep.
(d) E3 over the generators' random initial-solution builders.
Oracle for every transition: successor array = one cycle through all nodes (PDP: pickups before deliveries);
cost_current = float64 length; cost_bsf = length(rec_best) = min(previous bsf, new cost); never increases;
reward = decrease of bsf; visited_time consistent; rec_best not aliased to rec_current.
"""
from __future__ import annotations

import itertools
import math
import os

import torch

from ..core import Partial, Report, pmap, seed_from_env, quiet
from ..seam import ExplorationCapped, Seam, explore

quiet()
from rl4co.envs import PDPRuinRepairEnv, TSPkoptEnv  # noqa: E402

PID = "C09"
TOL = 2e-5

PTS = [(8 / 64, 8 / 64), (40 / 64, 16 / 64), (56 / 64, 48 / 64), (24 / 64, 56 / 64), (16 / 64, 32 / 64), (48 / 64, 8 / 64), (32 / 64, 40 / 64)]
DIAMOND = [(0.5, 0.5), (0.5 + 3 / 16, 0.5), (0.5, 0.5 + 4 / 16), (0.5 - 3 / 16, 0.5), (0.5, 0.5 - 4 / 16)]


# ------------------------------------------------------------------------------------------- oracle


def cycle_order(rec):
    """nodes in visiting order starting after node 0; None if rec is not a single cycle through all nodes"""
    n = len(rec)
    seen, cur, order = set(), 0, []
    for _ in range(n):
        cur = rec[cur]
        if cur in seen or not (0 <= cur < n):
            return None
        seen.add(cur)
        order.append(cur)
    return order if cur == 0 and len(seen) == n else None


def tour_len(locs, rec):
    return sum(math.dist(locs[i], locs[rec[i]]) for i in range(len(rec)))


def precedence_ok(order):
    n = len(order)
    half = n // 2
    pos = {v: i for i, v in enumerate(order)}
    return all(pos[p] < pos[p + half] for p in range(1, half + 1))


def rec_of_order(order):
    """order: visiting order starting at 0"""
    rec = [0] * len(order)
    for a, b in zip(order, order[1:] + order[:1]):
        rec[a] = b
    return rec


def judge_transition(kind, locs, before, after, trig):
    """before/after: dicts of python lists/floats for one row.  Returns list of (observable, text)."""
    out = []
    order = cycle_order(after["rec_current"])
    if order is None:
        out.append(("tour_invalid", f"rec_current {after['rec_current']} is not a single cycle through all nodes"))
        return out
    if kind == "pdp" and not precedence_ok(order):
        out.append(("precedence", f"a delivery precedes its pickup in {after['rec_current']}"))
    L = tour_len(locs, after["rec_current"])
    if abs(after["cost_current"] - L) > TOL * (1 + L):
        out.append(("cost_current", f"cost_current {after['cost_current']} vs length {L}"))
    ob = cycle_order(after["rec_best"])
    if ob is None:
        out.append(("tour_invalid", f"rec_best {after['rec_best']} is not a single cycle"))
        return out
    Lb = tour_len(locs, after["rec_best"])
    if abs(after["cost_bsf"] - Lb) > TOL * (1 + Lb):
        out.append(("cost_bsf", f"cost_bsf {after['cost_bsf']} vs length of rec_best {Lb}"))
    want = min(before["cost_bsf"], L)
    if abs(after["cost_bsf"] - want) > TOL * (1 + want):
        out.append(("cost_bsf", f"cost_bsf {after['cost_bsf']} vs min(previous bsf {before['cost_bsf']}, new cost {L})"))
    if after["cost_bsf"] > before["cost_bsf"] + 1e-7:
        out.append(("bsf_increase", f"best-so-far cost increased from {before['cost_bsf']} to {after['cost_bsf']}"))
    if abs(after["reward"] - (before["cost_bsf"] - after["cost_bsf"])) > 1e-6:
        out.append(("reward", f"reward {after['reward']} vs decrease of bsf {before['cost_bsf'] - after['cost_bsf']}"))
    n = len(order)
    vt = after["visited_time"]
    if [vt[v] % n for v in order] != [(i + 1) % n for i in range(n)]:
        out.append(("visited_time", f"visited_time {vt} inconsistent with tour order {order}"))
    if kind == "pdp" and ob is not None and not precedence_ok(ob):
        out.append(("precedence", f"rec_best {after['rec_best']} violates precedence"))
    return out


def rows_of(td, keys=("rec_current", "rec_best", "cost_current", "cost_bsf", "visited_time")):
    cols = {k: td[k].tolist() for k in keys}
    if "reward" in td.keys():
        cols["reward"] = td["reward"].reshape(td.batch_size[0], -1)[:, 0].tolist()
    B = td.batch_size[0]
    return [{k: cols[k][r] for k in cols} for r in range(B)]


# ------------------------------------------------------------------------------------------- environments


def make_env(kind, n, k=2):
    if kind == "tsp":
        return TSPkoptEnv(generator_params=dict(num_loc=n), k_max=k)
    return PDPRuinRepairEnv(generator_params=dict(num_loc=n - 1))


def all_tours(kind, n):
    outs = []
    for perm in itertools.permutations(range(1, n)):
        order = [0] + list(perm)
        if kind == "pdp" and not precedence_ok(list(perm) + [0]):
            continue
        outs.append(rec_of_order(order))
    return outs


def reset_with_tours(env, kind, locs, recs):
    """reset a batch whose initial solutions are the given successor arrays (the initial-solution generator is
    replaced by a stub returning them; everything else in reset is the real code)"""
    B = len(recs)
    t = torch.tensor(locs, dtype=torch.float32)
    from tensordict import TensorDict

    if kind == "tsp":
        td = TensorDict(dict(locs=t[None].expand(B, -1, -1).clone()), batch_size=[B])
    else:
        td = TensorDict(dict(depot=t[0][None].expand(B, -1).clone(), locs=t[1:][None].expand(B, -1, -1).clone()), batch_size=[B])
    orig = env.generator._get_initial_solutions
    env.generator._get_initial_solutions = lambda coords: torch.tensor(recs, dtype=torch.long)
    try:
        return env.reset(td)
    finally:
        env.generator._get_initial_solutions = orig


def admitted_moves(env, kind, td):
    """list over rows of admitted action tuples"""
    B, gs = td["rec_current"].shape
    if kind == "tsp":
        m = env.get_mask(td)
        return [[(i, j) for i in range(gs) for j in range(gs) if m[r, i, j]] for r in range(B)]
    out = [[] for _ in range(B)]
    for pair in range(gs // 2):
        m = env.get_mask(torch.full((B, 1), pair + 1, dtype=torch.long), td)
        for r in range(B):
            out[r] += [(pair, i, j) for i in range(gs) for j in range(gs) if m[r, i, j]]
    return out


def step(env, td, actions):
    td = td.clone()
    td.set("action", torch.tensor(actions, dtype=torch.long))
    return env.step(td)["next"]


def report(p, kind, cfg, locs, before, after, action, trig, hist):
    for obs, text in judge_transition(kind, locs, before, after, trig):
        p.violation(
            dict(property=PID, env="tsp_kopt" if kind == "tsp" else "pdp_ruin_repair", config=cfg, observable=obs, trigger=trig),
            dict(kind="improve", env=kind, config=cfg, locs=locs, start=hist[0], actions=[list(a) for a in hist[1]] + [list(action)], trigger=trig),
            f"{kind} {cfg}: from tour {before['rec_current']} (history {hist[1]}) move {list(action)} ({trig}): {text}",
        )


# ------------------------------------------------------------------------------------------- (a) mask moves


def unit_moves(item):
    _, kind, n, depth, locs, tier = item
    p = Partial()
    env = make_env(kind, n)
    recs = all_tours(kind, n)
    td = reset_with_tours(env, kind, locs, recs)
    rows0 = rows_of(td)
    for r in rows0:
        r["reward"] = 0.0
        # initial state sanity
        if cycle_order(r["rec_current"]) is None:
            raise RuntimeError("harness built an invalid initial tour")
    hists = [(list(r["rec_current"]), []) for r in rows0]
    seen = {(tuple(r["rec_current"]), tuple(r["rec_best"])) for r in rows0}
    p.add(states=len(rows0))
    level_td, level_rows = td, rows0
    for d in range(depth):
        moves = admitted_moves(env, kind, level_td)
        idx, acts = [], []
        for r, ms in enumerate(moves):
            for a in ms:
                idx.append(r)
                acts.append(a)
        if not idx:
            break
        nxt = step(env, level_td[torch.tensor(idx)], acts)
        # aliasing: mutate a clone's rec_current and make sure rec_best is untouched
        if nxt["rec_best"].data_ptr() == nxt["rec_current"].data_ptr():
            p.violation(dict(property=PID, env="tsp_kopt" if kind == "tsp" else "pdp_ruin_repair", config="k2" if kind == "tsp" else "", observable="aliasing", trigger="mask_move"), dict(kind="improve", env=kind, note="rec_best shares storage with rec_current"), f"{kind}: rec_best aliases rec_current after a step")
        after_rows = rows_of(nxt)
        p.add(transitions=len(idx), evaluations=len(idx))
        keep = []
        for q, (r, a) in enumerate(zip(idx, acts)):
            report(p, kind, "k2" if kind == "tsp" else "", locs, level_rows[r], after_rows[q], a, "mask_move", hists[r])
            key = (tuple(after_rows[q]["rec_current"]), tuple(after_rows[q]["rec_best"]))
            p.outcome(f"{kind}|{round(after_rows[q]['reward'], 5) > 0}")
            if key not in seen:
                seen.add(key)
                keep.append(q)
        p.add(states=len(keep), distinct_count=len(keep))
        if not keep:
            break
        new_hists = [(hists[idx[q]][0], hists[idx[q]][1] + [acts[q]]) for q in keep]
        level_td = nxt[torch.tensor(keep)]
        level_rows = [after_rows[q] for q in keep]
        hists = new_hists
    # conformance: re-execute a few of the explored move sequences from scratch (fresh reset, plain loop)
    for q in sorted({round(i * (len(hists) - 1) / 4) for i in range(5)}) if hists else []:
        start, acts_ = hists[q]
        td2 = reset_with_tours(env, kind, locs, [start, start])
        for a in acts_:
            td2 = step(env, td2, [list(a), list(a)])
        p.add(traces_validated_against_impl=1)
        if td2["rec_current"][0].tolist() != level_rows[q]["rec_current"] or td2["rec_best"][0].tolist() != level_rows[q]["rec_best"]:
            p.violation(dict(property=PID, env="tsp_kopt" if kind == "tsp" else "pdp_ruin_repair", config="", observable="replay_divergence", trigger="mask_move"), dict(kind="improve", env=kind, config="k2", locs=locs, start=start, actions=[list(a) for a in acts_], trigger="mask_move"), f"{kind}: replaying {acts_} from {start} alone gives a different state than inside the exploration batch")
    p.maxi(max_depth=depth)
    p.sample(dict(part="mask_moves", env=kind, n=n, initial_tours=len(recs), depth=depth), cap=1)
    return p


# ------------------------------------------------------------------------------------------- (b) random action


def unit_random(item):
    _, kind, n, k, locs, tier = item
    p = Partial()
    env = make_env(kind, n, k)
    recs = all_tours(kind, n)
    if tier == "quick" and len(recs) > 12:
        recs = recs[:: max(1, len(recs) // 12)]
    if k >= 5:
        recs = recs[:: max(1, len(recs) // (3 if tier == "quick" else 12))]
    cfg = f"k{k}" if kind == "tsp" else ""
    for rec in recs:
        td0 = reset_with_tours(env, kind, locs, [rec, rec])  # two identical rows: batch size 1 is not supported by the samplers
        before = rows_of(td0)[0]
        before["reward"] = 0.0

        def run(seam, td0=td0):
            td = td0.clone()
            with seam.active():
                a = env._random_action(td)
            if a[0].tolist() != a[1].tolist():
                raise RuntimeError("tied rows diverged")
            return a[0].tolist(), td

        produced = {}
        try:
            for ch, (a, td), seam in explore(run, max_dev=None, limit=30_000, float_patterns=False, tie_rows=True):
                produced.setdefault(tuple(a), td)
                p.add(states=1)
        except ExplorationCapped:
            p.add(caps_hit=1)
        if kind == "tsp" and k == 2:
            adm = set(admitted_moves(env, kind, td0)[0])
            for a in produced:
                if a not in adm:
                    p.violation(dict(property=PID, env="tsp_kopt", config=cfg, observable="move_outside_mask", trigger="random_action"), dict(kind="improve", env=kind, config=cfg, locs=locs, start=rec, actions=[list(a)], trigger="random_action"), f"tsp k2: sampler produced {a} which the move mask forbids")
        if kind == "pdp":
            adm = set(admitted_moves(env, kind, td0)[0])
            for a in produced:
                if a not in adm:
                    p.violation(dict(property=PID, env="pdp_ruin_repair", config=cfg, observable="move_outside_mask", trigger="random_action"), dict(kind="improve", env=kind, config=cfg, locs=locs, start=rec, actions=[list(a)], trigger="random_action"), f"pdp: sampler produced {a} which the move mask forbids")
        for a in produced:
            nxt = step(env, td0, [list(a), list(a)])
            after = rows_of(nxt)[0]
            p.add(transitions=1, evaluations=1, distinct_count=1)
            report(p, kind, cfg, locs, before, after, a, "random_action", (rec, []))
            p.outcome(f"{kind}|{cfg}|{tuple(after['rec_current']) == tuple(rec)}")
        p.add(distinct_moves=len(produced))
    p.sample(dict(part="random_action", env=kind, n=n, k=k, initial_tours=len(recs)), cap=1)
    return p


# ------------------------------------------------------------------------------------------- (c) policies


def make_policy(name, seed):
    from rl4co.models.zoo import DACTPolicy, N2SPolicy, NeuOptPolicy

    torch.manual_seed(100 + seed)
    cls = dict(dact=DACTPolicy, neuopt=NeuOptPolicy, n2s=N2SPolicy, n2s_ape=N2SPolicy, dact_ape=DACTPolicy)[name]
    kw = dict(pos_type="APE") if name.endswith("_ape") else {}  # documented non-default positional embedding
    return cls(embed_dim=16, num_heads=2, num_encoder_layers=1, feedforward_hidden=16, **kw).eval()


def unit_policy(item):
    _, name, kind, n, k, locs, tier, wseed = item
    p = Partial()
    env = make_env(kind, n, k)
    pol = make_policy(name, wseed)
    recs = all_tours(kind, n)
    if len(recs) > (6 if tier == "quick" else 24):
        recs = recs[:: max(1, len(recs) // (6 if tier == "quick" else 24))]
    cfg = f"k{k}" if kind == "tsp" else ""
    # two steps deep where the per-step choice tree is small (2-opt pairs, ruin-repair), one step for k-opt with k>=3 in quick
    depth = 2 if (tier != "quick" or name == "dact") else 1
    if tier == "quick" and depth == 2:
        recs = recs[:3]
    if tier != "quick" and len(recs) > 24:
        # 6 nodes: 120 start tours x thousands of sampler answers each is hours; a spread of 10 start tours is explored
        recs = [recs[round(i * (len(recs) - 1) / 9)] for i in range(10)]
    for rec in recs:
        td0 = reset_with_tours(env, kind, locs, [rec, rec])

        def run(seam, td0=td0):
            td = td0.clone()
            trace = []
            with torch.no_grad():
                for t in range(depth):
                    b = rows_of(td)[0]
                    b["reward"] = 0.0
                    with seam.active():
                        out = pol(td, env, phase="train", decode_type="sampling")
                    a = td["action"][0].tolist()
                    td = env.step(td)["next"]
                    trace.append((b, a, rows_of(td)[0]))
            return trace

        try:
            for ch, trace, seam in explore(run, max_dev=None, limit=4000 if tier == "quick" else (12_000 if name == "dact" else 5_000), float_patterns=False, tie_rows=True):
                p.add(states=1)
                hist = []
                for (b, a, af) in trace:
                    p.add(transitions=1, evaluations=1)
                    report(p, kind, cfg, locs, b, af, a, f"policy:{name}", (rec, list(hist)))
                    hist.append(a)
                p.case(f"{name}|{rec}|{[t[1] for t in trace]}")
                p.outcome(f"{name}|{round(trace[-1][2]['reward'], 6) > 0}")
        except ExplorationCapped:
            p.add(caps_hit=1)
    p.maxi(max_depth=depth)
    p.sample(dict(part="policy", policy=name, env=kind, n=n, k=k, initial_tours=len(recs), depth=depth), cap=1)
    return p


# ------------------------------------------------------------------------------------------- (d) initial solutions


LINE5 = [(0.5, 0.0), (0.4, 0.0), (0.3, 0.0), (0.0, 0.0), (1.0, 0.0)]  # greedy from city 0 ends at one extreme; the last city left is the other extreme (distance = diameter)


def unit_init(item):
    _, kind, n, tier = item[:4]
    variant = item[4] if len(item) > 4 else ""
    p = Partial()
    if variant == "odd":
        # an odd requested size is documented to be rounded up to the next even number of customers
        env = PDPRuinRepairEnv(generator_params=dict(num_loc=n - 2))
        if env.generator.num_loc + 1 != n:
            p.note(f"pdp generator asked for {n - 2} customers works with {env.generator.num_loc} (expected {n - 1}); judged by C18")
            n = env.generator.num_loc + 1
    else:
        env = make_env(kind, n)
    for init in ("random", "greedy"):
        env.generator.init_sol_type = init
        locs = torch.tensor(LINE5 if variant == "line" else PTS[:n], dtype=torch.float32)[None]

        def run(seam):
            with seam.active():
                return env.generator._get_initial_solutions(locs)[0].tolist()

        for ch, rec, seam in explore(run, max_dev=None if kind == "pdp" else 1, limit=50_000):
            p.add(states=1, transitions=len(ch), evaluations=1)
            order = cycle_order(rec)
            p.case(f"{kind}|{init}|{rec}")
            p.outcome(f"{kind}|{init}|{order is not None}")
            if order is None or (kind == "pdp" and not precedence_ok(order)):
                p.violation(
                    dict(property=PID, env="tsp_kopt" if kind == "tsp" else "pdp_ruin_repair", config=f"init={init}", observable="tour_invalid" if order is None else "precedence", trigger="initial_solution"),
                    dict(kind="init", env=kind, n=n, init=init, choices=ch, variant=variant),
                    f"{kind}: initial solution generator ({init}) produced {rec}",
                )
    p.sample(dict(part="initial_solutions", env=kind, n=n), cap=1)
    return p


# -------------------------------------------------------------------------------------------


# ------------------------------------------------------------------------------------------- (e) torchrl mode


def unit_torchrl(item):
    """`_torchrl_mode=True` (TorchRL-style stepping, used by the step-wise trainers): env.step(td) returns td with a
    separate "next" state.  Every admitted move from every valid tour (and one level deeper): BOTH states of the
    transition are judged - the next state like everywhere else, and the state that was stepped from must still be the
    state it was before the call (its best tour, costs and current tour unchanged, best-so-far cost = length of its
    stored best tour)."""
    _, kind, n, locs, tier = item
    p = Partial()
    env = TSPkoptEnv(generator_params=dict(num_loc=n), k_max=2, _torchrl_mode=True) if kind == "tsp" else PDPRuinRepairEnv(generator_params=dict(num_loc=n - 1), _torchrl_mode=True)
    recs = all_tours(kind, n)
    level_td = reset_with_tours(env, kind, locs, recs)
    name = "tsp_kopt" if kind == "tsp" else "pdp_ruin_repair"
    keys = ("rec_current", "rec_best", "cost_current", "cost_bsf", "visited_time")
    for depth in range(2):
        moves = admitted_moves(env, kind, level_td)
        idx, acts = [], []
        for r, ms in enumerate(moves):
            for a in ms:
                idx.append(r)
                acts.append(a)
        if not idx:
            break
        td_in = level_td[torch.tensor(idx)].clone()
        td_in.set("action", torch.tensor(acts, dtype=torch.long))
        snapshot = {k: td_in[k].clone() for k in keys}
        out = env.step(td_in)
        nxt = out["next"]
        p.add(states=len(idx), transitions=len(idx), evaluations=2 * len(idx), distinct_count=len(idx), traces_validated_against_impl=len(idx))
        before_rows = [{k: snapshot[k][q].tolist() for k in keys} for q in range(len(idx))]
        held_rows = rows_of(td_in, keys)
        after_rows = rows_of(nxt)
        bad = 0
        for q, a in enumerate(acts):
            hist = (before_rows[q]["rec_current"], [])
            report(p, kind, "torchrl", locs, before_rows[q], after_rows[q], a, "torchrl_mode_next_state", hist)
            changed = [k for k in keys if held_rows[q][k] != before_rows[q][k]]
            if changed and bad < 3:
                bad += 1
                p.violation(
                    dict(property=PID, env=name, config="torchrl", observable="previous_state_mutated", trigger="torchrl_mode"),
                    dict(kind="improve_torchrl", env=kind, locs=locs, n=n),
                    f"{kind} (_torchrl_mode): stepping move {list(a)} from tour {before_rows[q]['rec_current']} rewrote {changed} of the state that was stepped from (its rec_best is now {held_rows[q]['rec_best']} while its cost_bsf is still {held_rows[q]['cost_bsf']})",
                )
            p.outcome(f"{kind}|torchrl|{after_rows[q]['reward'] > 0}")
        seen, keep = set(), []
        for q in range(len(idx)):
            key = (tuple(after_rows[q]["rec_current"]), tuple(after_rows[q]["rec_best"]))
            if key not in seen:
                seen.add(key)
                keep.append(q)
        level_td = nxt[torch.tensor(keep)].clone()
        if "action" in level_td.keys():
            level_td = level_td.exclude("action")
    p.sample(dict(part="torchrl_mode", env=kind, n=n, initial_tours=len(recs)), cap=1)
    return p


def unit_large(item):
    """30 cities, half of them almost coincident twins (1e-4 apart): above ~25 points distance kernels may switch to a
    matrix-product formula that cancels catastrophically for near-coincident points.  Reported costs after reset and
    after every admitted 2-opt move from two start tours are compared with float64 tour lengths."""
    _, tier = item
    p = Partial()
    n = 30
    base = [((7 * i) % 15 / 15.0 + 0.03, (11 * i) % 15 / 15.0 + 0.02) for i in range(15)]
    locs = [list(b) for b in base] + [[b[0] + 1e-4, b[1] - 1e-4] for b in base]
    env = make_env("tsp", n)
    # start tours: index order, and every city followed by its twin (15 edges of length ~1.4e-4)
    recs = [rec_of_order(list(range(n))), rec_of_order([x for i in range(15) for x in (i, i + 15)])]
    td = reset_with_tours(env, "tsp", locs, recs)
    rows0 = rows_of(td)
    for r in rows0:
        r["reward"] = 0.0
        L = tour_len(locs, r["rec_current"])
        p.add(states=1, evaluations=1)
        if abs(r["cost_current"] - L) > TOL * (1 + L) or abs(r["cost_bsf"] - L) > TOL * (1 + L):
            p.violation(dict(property=PID, env="tsp_kopt", config="n30_twins", observable="cost_current", trigger="reset"), dict(kind="improve_large"), f"tsp n=30 with twin cities: after reset cost_current {r['cost_current']} / cost_bsf {r['cost_bsf']} vs tour length {L}")
    moves = admitted_moves(env, "tsp", td)
    idx, acts = [], []
    for r, ms in enumerate(moves):
        for a in ms:
            idx.append(r)
            acts.append(a)
    nxt = step(env, td[torch.tensor(idx)], acts)
    after = rows_of(nxt)
    p.add(transitions=len(idx), evaluations=len(idx), distinct_count=len(idx), traces_validated_against_impl=len(idx))
    for q, (r, a) in enumerate(zip(idx, acts)):
        report(p, "tsp", "n30_twins", locs, rows0[r], after[q], a, "mask_move_large", (rows0[r]["rec_current"], []))
    p.outcome("tsp|n30")
    p.sample(dict(part="large instance with twin cities", n=n, moves=len(idx)), cap=1)
    return p


def work_items(tier):
    items = []
    q = tier == "quick"
    for n, locs in ((4, DIAMOND[1:5]), (5, PTS[:5])) + (() if q else ((6, PTS[:6]),)):
        items.append(("moves", "tsp", n, 3 if (q or n == 6) else 4, [list(x) for x in locs], tier))
    items.append(("moves", "pdp", 5, 3, [list(x) for x in PTS[:5]], tier))
    if not q:
        items.append(("moves", "pdp", 7, 2, [list(x) for x in PTS[:7]], tier))
    for k in (2, 3, 4):
        items.append(("random", "tsp", 5, k, [list(x) for x in PTS[:5]], tier))
        if not q:
            items.append(("random", "tsp", 6, k, [list(x) for x in PTS[:6]], tier))
    # k = 5: larger k is documented ("k in {2,3,4,...}") although unused by the bundled models
    items.append(("random", "tsp", 6, 5, [list(x) for x in PTS[:6]], tier))
    items.append(("random", "pdp", 5, 0, [list(x) for x in PTS[:5]], tier))
    for ws in (0, 1):
        items.append(("policy", "dact", "tsp", 5, 2, [list(x) for x in PTS[:5]], tier, ws))
        items.append(("policy", "neuopt", "tsp", 5, 3, [list(x) for x in PTS[:5]], tier, ws))
        items.append(("policy", "neuopt", "tsp", 6 if not q else 5, 4, [list(x) for x in PTS[: 6 if not q else 5]], tier, ws))
        items.append(("policy", "n2s", "pdp", 5, 0, [list(x) for x in PTS[:5]], tier, ws))
        if ws == 0:
            items.append(("policy", "n2s_ape", "pdp", 5, 0, [list(x) for x in PTS[:5]], tier, ws))
            items.append(("policy", "dact_ape", "tsp", 5, 2, [list(x) for x in PTS[:5]], tier, ws))
    items.append(("large", tier))
    items.append(("torchrl", "tsp", 5, [list(x) for x in PTS[:5]], tier))
    items.append(("torchrl", "pdp", 5, [list(x) for x in PTS[:5]], tier))
    items.append(("init", "tsp", 5, tier))
    items.append(("init", "tsp", 5, tier, "line"))
    items.append(("init", "pdp", 7, tier, "odd"))
    items.append(("init", "pdp", 5, tier))
    if not q:
        items.append(("init", "pdp", 7, tier))
    return items


def unit(item):
    return dict(moves=unit_moves, random=unit_random, policy=unit_policy, init=unit_init, torchrl=unit_torchrl, large=unit_large)[item[0]](item)


def main(tier):
    rep = Report(PID, tier, rule="one case = one transition (tour, move) of an improvement environment, where the move is admitted by the move mask, emitted by env._random_action under some RNG answer, or chosen by a bundled policy under some sampler answer; distinct = distinct (env, state, move)")
    rep.assumptions = [
        "k-opt moves for k>2 are those env._random_action / NeuOptPolicy can emit (the environment has no mask for them); rand() draws inside the samplers use the seeded default answer, multinomial answers are enumerated completely",
        "policies have tiny random weights (2 seeds); tolerance 2e-5 relative on float32 tour lengths",
        "initial states: every valid tour of the instance (PDP: every precedence-feasible tour)",
    ]
    only = os.environ.get("VERIF_ONLY")
    items = [i for i in work_items(tier) if not only or only in str(i[:3])]
    rep.merge_all(pmap(unit, items))
    return rep.finish()


def replay(rec):
    if rec.get("kind") == "init":
        env = make_env(rec["env"], rec["n"]) if rec.get("variant") != "odd" else PDPRuinRepairEnv(generator_params=dict(num_loc=rec["n"] - 2))
        env.generator.init_sol_type = rec["init"]
        locs = torch.tensor(LINE5 if rec.get("variant") == "line" else PTS[: rec["n"]], dtype=torch.float32)[None]
        seam = Seam(rec["choices"])
        with seam.active():
            r = env.generator._get_initial_solutions(locs)[0].tolist()
        order = cycle_order(r)
        bad = order is None or (rec["env"] == "pdp" and not precedence_ok(order))
        return bad, f"initial solution {r}"
    if rec.get("kind") == "improve_large" or rec.get("config") == "n30_twins":
        p = unit_large(("large", "quick"))
        return bool(p.violations), "; ".join(v["msg"] for v in p.violations[:2]) or "costs of the 30-city instance equal the float64 tour lengths"
    if rec.get("kind") == "improve_torchrl" or rec.get("config") == "torchrl":
        p = unit_torchrl(("torchrl", rec["env"], len(rec["locs"]), rec["locs"], "quick"))
        return bool(p.violations), "; ".join(v["msg"] for v in p.violations[:2]) or "both states of every torchrl-mode transition are consistent"
    kind = rec["env"]
    n = len(rec["locs"])
    k = int(rec["config"][1:]) if rec.get("config", "").startswith("k") else 2
    env = make_env(kind, n, k)
    td = reset_with_tours(env, kind, rec["locs"], [rec["start"], rec["start"]])
    found = []
    for a in rec["actions"]:
        b = rows_of(td)[0]
        b["reward"] = 0.0
        td = step(env, td, [a, a])
        found = judge_transition(kind, rec["locs"], b, rows_of(td)[0], rec.get("trigger", ""))
    return bool(found), f"replayed {rec['actions']} from {rec['start']}: {found}"
