"""C06 — the built-in solution checker agrees with the ground-truth definition.

For each environment shipping `check_solution_validity`, candidate solutions are enumerated:
  G1 every mask-generated solution (all leaves of the exhaustive tree, with the final TensorDict),
  G2 the same with trailing padding actions as a batched decoder appends them,
  G3 every brute-force candidate of the problem definition (feasible AND infeasible ones),
  G4 alternative encodings of feasible ones that the reward function accepts (trailing depot, doubled
     depot, no depot at all),
  G5 all single-fault corruptions of feasible solutions (drop / duplicate a customer, swap neighbours).
The independent oracle classifies each as feasible (MUST) / infeasible (beyond MAY) / in-band (skipped);
the checker has to accept the first class and raise AssertionError on the second.
"""
from __future__ import annotations

import torch

from .. import explore as E
from ..core import Partial, Report, pmap, seed_from_env
from ..oracles import routing as O
from ..routing import SPECS
from ..rtree import explore_instance, selected_specs, sig, solo_validate

PID = "C06"

CVRP_LIKE = ("cvrp", "cvrptw", "mtvrp")
# fault classes the property demands the checker to reject (others are reported as information only)
DEMANDED = {"missing", "duplicate", "capacity", "capacity_linehaul", "capacity_backhaul", "time_window", "depot_deadline", "delivery_before_pickup", "max_length", "distance_limit", "min_prize", "skill", "demand_unserved", "out_of_range"}


def has_checker(spec):
    return spec.has_checker


def call_checker(env, td, rows):
    """rows: list of action lists of equal length.  Returns None if accepted, else the exception."""
    acts = torch.tensor(rows, dtype=torch.long).reshape(len(rows), -1)
    tdb = td if td.batch_size[0] == len(rows) else td.expand(len(rows)).clone()
    try:
        env.check_solution_validity(tdb, acts)
        return None
    except AssertionError as e:
        return e
    except Exception as e:  # crash: neither accept nor a proper rejection
        return e


def oracle_normal(spec, actions):
    """Encoding -> solution: strip the trailing padding a decoder appends (per environment semantics)."""
    a = list(actions)
    k = spec.kind
    if k in ("op", "pctsp"):
        # the episode ends with the first return to the depot; later depot actions are padding
        a0 = O._strip_leading_depot(a) if k == "op" else a
        if 0 in a0:
            i = a0.index(0)
            if all(x == 0 for x in a0[i:]):
                return a0[: i + 1]
        return a0
    if k in ("cvrp", "cvrptw", "sdvrp", "mtvrp"):
        while len(a) > 1 and a[-1] == 0 and a[-2] == 0:
            a.pop()
        return a
    return a


def variants(spec, sol, max_len):
    """G4: other encodings of the same solution that _get_reward handles.  Trailing padding is only appended
    up to the longest episode of a stackable alphabet instance (what a batched decoder can produce)."""
    k = spec.kind
    out = []
    if k in ("cvrp", "cvrptw", "sdvrp", "mtvrp", "svrp"):
        if sol and sol[-1] != 0 and len(sol) < max_len:
            out.append(("trailing_depot", list(sol) + [0]))
        if len(sol) + 2 <= max_len:
            out.append(("trailing_padding", list(sol) + [0, 0]))
    if k in CVRP_LIKE:
        if 0 in sol[:-1]:
            i = sol.index(0)
            out.append(("doubled_depot", list(sol[:i]) + [0] + list(sol[i:])))
    if k in ("op", "pctsp") and len(sol) + 2 <= max_len:
        out.append(("trailing_padding", list(sol) + [0, 0]))
    return out


def corruptions(spec, sol):
    """G5: single faults"""
    k = spec.kind
    out = []
    custs = [i for i, a in enumerate(sol) if a != 0 or k in ("tsp", "atsp")]
    fixed_len = k in ("tsp", "atsp", "pdp")
    for i in custs:
        if not fixed_len:
            out.append(("drop", sol[:i] + sol[i + 1 :]))
        for j in custs:
            if i != j:
                dup = list(sol)
                dup[i] = sol[j]
                out.append(("duplicate", dup))
                break
        if not fixed_len:
            out.append(("insert_duplicate", sol[: i + 1] + [sol[i]] + sol[i + 1 :]))
    for i in range(len(sol) - 1):
        if sol[i] != sol[i + 1]:
            sw = list(sol)
            sw[i], sw[i + 1] = sw[i + 1], sw[i]
            out.append(("swap", sw))
    return out


def unit(item):
    key, tier, seed = item
    spec = SPECS[key]
    p = Partial()
    from .c03 import group_max_depths, shape_sig

    gm = group_max_depths(spec, spec.instances(tier, seed))
    for iid, inst in spec.instances(tier, seed):
        oi, cfg = spec.oracle_inst(inst), spec.oracle_cfg(inst)
        env, td0, tree = explore_instance(spec, inst, p)
        max_len = gm[shape_sig(td0)]
        for b in solo_validate(spec, env, td0, tree, p, k=3):
            p.note(f"{spec.key} {iid}: batched frontier and solo stepping disagree at {b} (reported under C04)")
        td_reset = env.reset(td0.clone())

        def judge(acts):
            return O.check(spec.kind, oi, oracle_normal(spec, acts), cfg)

        # ---- G1: mask-generated, with their own final TensorDict -------------------------------
        by_len = {}
        for i, h in enumerate(tree.leaves):
            by_len.setdefault(len(h), []).append(i)
        for L, idxs in by_len.items():
            sub = tree.leaf_td[torch.tensor(idxs)].clone()
            rows = [list(tree.leaves[i]) for i in idxs]
            p.add(evaluations=len(rows), distinct_count=len(rows))
            err = call_checker(env, sub, rows)
            if err is not None:
                for i, r in zip(idxs, rows):
                    e1 = call_checker(env, tree.leaf_td[i : i + 1].clone(), [r])
                    v = judge(r)
                    if e1 is not None and v.must:
                        trig = "no_depot_visit" if (0 not in r and spec.kind in ("cvrp", "cvrptw", "sdvrp", "mtvrp", "svrp")) else "mask_generated"
                        p.violation(
                            sig(PID, spec, "checker_rejects_feasible", trig),
                            dict(kind="checker", spec=spec.key, instance_id=iid, instance=inst, actions=r, source="mask"),
                            f"{spec.key} {iid}: checker rejects the mask-generated feasible solution {r}: {type(e1).__name__}: {str(e1)[:80]}",
                        )
        # ---- G2..G5 on the reset TensorDict --------------------------------------------------
        cands = {}  # tuple(actions) -> source label

        def add(label, acts):
            cands.setdefault(tuple(acts), label)

        for h in tree.leaves[:: max(1, len(tree.leaves) // 40)]:
            add("mask", list(h))
            for lab, v_ in variants(spec, list(h), max_len):
                add("mask+" + lab, v_)
        n_feas = 0
        from .c05 import candidates

        if not (spec.kind == "mdcpdp"):
            for sol in candidates(spec, oi, cfg):
                sol = list(sol)
                add("bruteforce", sol)
                v = O.check(spec.kind, oi, sol, cfg)
                if v.must and n_feas < (60 if tier == "quick" else 400):
                    n_feas += 1
                    for lab, s2 in variants(spec, sol, max_len):
                        add(lab, s2)
                    for lab, s2 in corruptions(spec, sol):
                        add(lab, s2)
        for acts, label in cands.items():
            acts = list(acts)
            if not acts:
                continue
            v = judge(acts)
            p.add(evaluations=1, distinct_count=1)
            if not v.must and v.may:
                p.add(in_band=1)
                continue
            err = call_checker(env, td_reset, [acts])
            p.outcome(f"{spec.key}|{label}|{v.must}|{err is None}")
            if v.must and err is not None:
                trig = "no_depot_visit" if (0 not in acts and spec.kind in ("cvrp", "cvrptw", "sdvrp", "mtvrp", "svrp")) else label
                p.violation(
                    sig(PID, spec, "checker_rejects_feasible" if isinstance(err, AssertionError) else f"crash:{type(err).__name__}", trig),
                    dict(kind="checker", spec=spec.key, instance_id=iid, instance=inst, actions=acts, source=label),
                    f"{spec.key} {iid}: checker rejects feasible solution {acts} ({label}): {type(err).__name__}: {str(err)[:80]}",
                )
            elif not v.may and err is None:
                reasons = [h_.split(":")[0] for h_ in v.hard]
                demanded = [r_ for r_ in reasons if r_ in DEMANDED]
                if len(demanded) < len(reasons):  # only pure faults of the listed classes are demanded
                    p.add(not_demanded=1)
                    p.note(f"{spec.kind}: the checker accepts solutions the oracle calls infeasible for a reason outside the property's list ({reasons[0]}); counted under not_demanded, not a violation")
                    continue
                p.violation(
                    sig(PID, spec, "checker_accepts_infeasible", demanded[0]),
                    dict(kind="checker", spec=spec.key, instance_id=iid, instance=inst, actions=acts, source=label),
                    f"{spec.key} {iid}: checker accepts infeasible solution {acts} ({label}; oracle: {v.hard})",
                )
        p.sample(dict(env=spec.key, instance=iid, candidates=len(cands), mask_generated=len(tree.leaves)), cap=1)
    return p


def main(tier):
    rep = Report(PID, tier, level="model_checking", rule="one case = one candidate solution (mask-generated leaf, brute-force candidate, alternative encoding or single-fault corruption) of one instance, classified by the oracle and fed to check_solution_validity; distinct = distinct (environment, instance, action list)")
    rep.assumptions = [
        "candidates in the tolerance band of a float constraint are skipped (counted as in_band)",
        "hand-built candidates use encodings the environment's reward function accepts; only the fault classes listed in the property are demanded on the reject side",
    ]
    seed = seed_from_env()
    items = [(s.key, tier, seed) for s in selected_specs(has_checker)]
    parts = pmap(unit, items)
    from . import c06_extra

    parts += c06_extra.run(tier)
    rep.merge_all(parts)
    rep.extra["environments"] = sorted(i[0] for i in items) + c06_extra.env_keys()
    return rep.finish()


def replay(rec):
    if rec.get("kind") != "checker":
        from . import c06_extra

        return c06_extra.replay(rec)
    spec = SPECS[rec["spec"]]
    inst = rec["instance"]
    env = spec.env(inst)
    td = env.reset(spec.td(inst))
    v = O.check(spec.kind, spec.oracle_inst(inst), oracle_normal(spec, rec["actions"]), spec.oracle_cfg(inst))
    err = call_checker(env, td, [rec["actions"]])
    bad = (v.must and err is not None) or (not v.may and err is None)
    return bad, f"oracle: {v}; checker: {'accepts' if err is None else type(err).__name__ + ': ' + str(err)[:100]}"
