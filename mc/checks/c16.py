"""C16 — training losses are the stated policy-gradient surrogates, with their gradients.

E4/E5 on the real model classes (tiny attention-model policies, TSP / CVRP alphabet batches), over SUCCESSIVE training
steps so that stateful baselines and the advantage scaler are exercised from non-initial states:
  * REINFORCE.calculate_loss with every bundled baseline (no, mean, exponential, warm-up mixtures with alpha in
    {0, 1/2, 1}, greedy-rollout values attached as `extra`, critic) x reward_scale in {None, 2, 'norm', 'scale'}
    x batch sizes 1..3, and A2C;
  * POMO.shared_step (shared baseline over starts) for (B, n_start) in {1,2,3} x {2,3};
  * SymNCO.shared_step for (B, n_aug, n_start) in {1,2} x {1,2,3} x {1,2,3} INCLUDING n_aug != n_start;
  * PPO.shared_step (one inner epoch, mini-batch = batch, clip in {0.1,0.2}, entropy lambda in {0,0.1},
    normalize_adv on/off) with the optimiser stubbed out.
Rollouts are fixed by the RNG seam (default answers).  Reference: the surrogate rebuilt by the harness from the
rollout's reward and log-likelihood and an independent value of the baseline:  -mean((r - b) * ll) + bl_loss  (shared
variants: b = mean over the stated axis per instance, rows laid out as (start, augment, batch));  PPO: clipped
ratio + vf_lambda * Huber - entropy_lambda * entropy.  Checks: loss value, gradient w.r.t. every policy (and critic)
parameter, reward / baseline carry no gradient, shared advantages sum to zero per instance.
"""
from __future__ import annotations

import copy
import math
import os

import torch
import torch.nn.functional as F

from ..core import Partial, Report, pmap, seed_from_env
from ..policies import make
from ..registry import ALL_SPECS
from ..seam import Seam

PID = "C16"


def sig(env, config, observable, trigger):
    return dict(property=PID, env=env, config=config, observable=observable, trigger=trigger)


def batch_of(skey, B, seed, offset=0):
    spec = ALL_SPECS[skey]
    insts = spec.instances("quick", seed)
    groups = {}
    for iid, inst in insts:
        td = spec.td(inst)
        groups.setdefault(tuple((k, tuple(v.shape[1:])) for k, v in sorted(td.items())), []).append((iid, inst, td))
    g = max(groups.values(), key=len)
    rows = [g[(offset + 3 * i) % len(g)] for i in range(B)]
    return spec, spec.env(rows[0][1]), torch.cat([r[2] for r in rows], 0), [r[0] for r in rows]


def grads(loss, params):
    gs = torch.autograd.grad(loss, params, retain_graph=True, allow_unused=True)
    return [torch.zeros_like(p) if g is None else g for g, p in zip(gs, params)]


def grad_diff(a, b):
    num = max(float((x - y).abs().max()) for x, y in zip(a, b))
    den = max(1e-8, max(float(x.abs().max()) for x in b))
    return num, den


class RefScaler:
    """float64 reference of the advantage scaler"""

    def __init__(self, scale):
        self.scale = scale
        self.vals = []
        self.kappa = 0.0

    def noise(self):
        """relative float32 round-off of the library's running std for the history seen so far: the running (Welford)
        update cancels |mean| against the spread, so its relative error grows like eps32 * (|values| / std)^2; a
        history with |mean| >> std (advantages of a nearly constant critic) is ill-conditioned, not wrong"""
        return 1.2e-7 * self.kappa * self.kappa

    def __call__(self, adv):
        if self.scale is None:
            return adv
        if isinstance(self.scale, int):
            return adv / self.scale
        self.vals += adv.detach().double().reshape(-1).tolist()
        n = len(self.vals)
        mean = sum(self.vals) / n
        std = math.sqrt(sum((v - mean) ** 2 for v in self.vals) / (n - 1)) if n > 1 else float("nan")
        eps = torch.finfo(adv.dtype).eps
        if n > 1 and std > 0:
            self.kappa = (abs(mean) + max(abs(v - mean) for v in self.vals)) / std
        if self.scale == "norm":
            return (adv - mean) / (std + eps)
        return adv / (std + eps)


# ------------------------------------------------------------------------------------------- REINFORCE / A2C


def unit_reinforce(item):
    from rl4co.models.rl import A2C, REINFORCE

    _, skey, bname, scale, B, seed = item
    p = Partial()
    spec, env, batch, ids = batch_of(skey, B, seed)
    policy = make("am_inst", env, 0, train=True)
    cfg = f"{bname}|scale={scale}|B={B}"
    env_name = skey.partition(":")[0]
    kw = {}
    from rl4co.models.rl.common.critic import CriticNetwork
    from rl4co.models.rl.reinforce.baselines import CriticBaseline, ExponentialBaseline, WarmupBaseline

    def critic():  # built explicitly: create_critic_from_actor assumes the default embedding size for the value head
        return CriticNetwork(copy.deepcopy(policy.encoder), embed_dim=16, hidden_dim=32)

    if bname.startswith("warmup"):
        model = REINFORCE(env, policy, baseline=WarmupBaseline(ExponentialBaseline(beta=0.0), n_epochs=2, warmup_exp_beta=0.5), reward_scale=scale)
    elif bname == "a2c":
        model = A2C(env, policy, critic=critic(), reward_scale=scale)
    elif bname == "critic":
        model = REINFORCE(env, policy, baseline=CriticBaseline(critic()), reward_scale=scale)
    elif bname == "extra":
        model = REINFORCE(env, policy, baseline="rollout", reward_scale=scale)
    else:
        model = REINFORCE(env, policy, baseline=bname, baseline_kwargs=dict(beta=0.5) if bname == "exponential" else {}, reward_scale=scale)
    params = [q for q in policy.parameters()]
    cparams = [q for q in model.baseline.parameters()] if bname in ("critic", "a2c") else []
    ref_scaler = RefScaler(scale)
    ema, ema_w = None, None
    bl_policy = copy.deepcopy(policy).eval()
    # warm-up: two training steps inside every epoch (the moving average must carry over from one mixture step to
    # the next untouched) and one epoch callback beyond n_epochs
    cb_before = (False, False, True, False, True, False, True) if bname.startswith("warmup") else (False, False, False)
    n_cb = 0
    for step, cb in enumerate(cb_before):
        if cb:
            model.baseline.epoch_callback(policy, env=env, batch_size=2, device="cpu", epoch=n_cb, dataset_size=2)
            n_cb += 1
        b = batch.clone()
        if bname == "extra":
            with torch.no_grad(), Seam().active():
                extra = bl_policy(env.reset(batch.clone()), env, decode_type="greedy")["reward"]
            b.set("extra", extra)
        td = env.reset(b.clone())
        with Seam().active():
            out = policy(td, env, phase="train")
        rec = dict(kind="reinforce", spec=skey, baseline=bname, scale=scale, B=B, step=step, instances=ids)
        try:
            res = model.calculate_loss(td, b, out)
        except Exception as e:  # noqa: BLE001
            p.violation(sig(env_name, cfg, f"crash:{type(e).__name__}", f"step={step}"), rec, f"REINFORCE({bname}, scale={scale}) B={B} step {step}: calculate_loss crashed: {type(e).__name__}: {str(e)[:100]}")
            break
        r, ll = res["reward"], res["log_likelihood"]
        p.add(states=1, evaluations=1, transitions=1)
        p.case(f"{skey}|{cfg}|{step}")
        if r.requires_grad:
            p.violation(sig(env_name, cfg, "reward_requires_grad", f"step={step}"), rec, "the reward carries a gradient")
        # reference baseline
        bl_loss_ref = 0.0
        if bname == "no":
            bref = torch.zeros_like(r)
        elif bname == "mean":
            bref = r.mean().detach().expand_as(r)
        elif bname == "exponential":
            ema = r.mean().detach() if ema is None else 0.5 * ema + 0.5 * r.mean().detach()
            bref = ema.expand_as(r)
        elif bname.startswith("warmup"):
            alpha = model.baseline.alpha
            want_alpha = min(1.0, n_cb / 2.0)
            if abs(alpha - want_alpha) > 1e-9:
                p.violation(sig(env_name, cfg, "alpha", f"step={step}"), rec, f"warm-up weight is {alpha} after {n_cb} epoch callbacks with n_epochs=2, expected {want_alpha}")
            v_mean = r.mean().detach()
            if alpha < 1:
                ema_w = r.mean().detach() if ema_w is None else 0.5 * ema_w + 0.5 * r.mean().detach()
            v_w = ema_w if ema_w is not None else v_mean
            bref = (alpha * v_mean + (1 - alpha) * v_w).expand_as(r) if 0 < alpha < 1 else (v_mean.expand_as(r) if alpha == 1 else v_w.expand_as(r))
        elif bname == "extra":
            bref = extra
        else:  # critic / a2c
            v = model.baseline.critic(td).squeeze(-1)
            bref = v.detach()
            bl_loss_ref = F.mse_loss(v, r.detach())
        bl_val = res["bl_val"]
        if isinstance(bl_val, torch.Tensor) and bl_val.requires_grad:
            p.violation(sig(env_name, cfg, "baseline_requires_grad", f"step={step}"), rec, "the baseline value carries a gradient into the policy loss")
        adv = ref_scaler(r.detach() - bref)
        if isinstance(adv, torch.Tensor) and not torch.isfinite(adv).all():
            p.add(undefined_scaling=1)  # sample std of a single value is undefined in the reference too
            continue
        ref_loss = -(adv * ll).mean() + bl_loss_ref
        lib_loss = res["loss"]
        nz = ref_scaler.noise()
        if nz > 1e-2:
            p.add(ill_conditioned_scaling=1)  # |mean| / std of the advantages beyond ~300: float32 cannot resolve the std
            continue
        if abs(float(lib_loss) - float(ref_loss)) > (1e-5 + nz) * (1 + abs(float(ref_loss))):
            p.violation(sig(env_name, cfg, "loss", f"step={step}"), rec, f"REINFORCE({bname}, scale={scale}) B={B} step {step}: loss {float(lib_loss)} vs reference surrogate {float(ref_loss)}")
            continue
        num, den = grad_diff(grads(lib_loss, params), grads(ref_loss, params))
        if num > 1e-5 + (1e-4 + nz) * den:
            p.violation(sig(env_name, cfg, "policy_gradient", f"step={step}"), rec, f"REINFORCE({bname}, scale={scale}) B={B} step {step}: policy gradient differs from the reference surrogate's (max abs diff {num}, scale {den})")
        if cparams:
            num, den = grad_diff(grads(lib_loss, cparams), grads(ref_loss, cparams))
            if num > 1e-5 + 1e-4 * den:
                p.violation(sig(env_name, cfg, "critic_gradient", f"step={step}"), rec, f"{bname}: critic gradient differs from the gradient of the baseline loss (max abs diff {num})")
        p.outcome(f"{cfg}|{round(float(ref_loss), 4)}")
    p.sample(dict(part="reinforce", env=skey, baseline=bname, reward_scale=scale, batch=ids, steps=len(cb_before)), cap=1)
    return p


# ------------------------------------------------------------------------------------------- POMO / SymNCO


def capture_shared_step(model, batch):
    cap = {}
    model.log_metrics = lambda out, phase, dataloader_idx=None: (cap.update(out), {})[1]
    with Seam().active():
        model.shared_step(batch, 0, "train")
    return cap


def unit_pomo(item):
    from rl4co.models.zoo import POMO

    _, skey, B, S, seed = item[:5]
    scale = item[5] if len(item) > 5 else None
    p = Partial()
    spec, env, batch, ids = batch_of(skey, B, seed)
    policy = make("am_inst", env, 0, train=True)
    model = POMO(env, policy, num_starts=S, num_augment=8, reward_scale=scale)
    params = list(policy.parameters())
    cfg = f"pomo|B={B}|S={S}|scale={scale}"
    ref_scaler = RefScaler(scale)
    env_name = skey.partition(":")[0]
    for step in range(2):
        rec = dict(kind="pomo", spec=skey, B=B, S=S, scale=scale, step=step, instances=ids)
        try:
            out = capture_shared_step(model, batch.clone())
        except Exception as e:  # noqa: BLE001
            p.violation(sig(env_name, cfg, f"crash:{type(e).__name__}", f"step={step}"), rec, f"POMO B={B} S={S}: shared_step crashed: {type(e).__name__}: {str(e)[:100]}")
            break
        r, ll = out["reward"].detach(), out["log_likelihood"]
        p.add(states=1, evaluations=1, transitions=1)
        p.case(f"{skey}|{cfg}|{step}")
        if r.numel() != B * S:
            p.violation(sig(env_name, cfg, "shape", f"step={step}"), rec, f"POMO: {r.numel()} rollouts for B={B}, S={S}")
            continue
        R = r.reshape(S, B).t()  # rows are laid out (start, batch)
        LL = ll.reshape(S, B).t()
        adv = R - R.mean(dim=1, keepdim=True)
        if float(adv.sum(dim=1).abs().max()) > 1e-5:
            raise RuntimeError("reference advantages do not sum to zero")
        adv = ref_scaler(adv)  # the advantage scaler sees every value of the [batch, starts] advantage
        ref_loss = -(adv * LL).mean()
        bl = out["bl_val"]
        if isinstance(bl, torch.Tensor) and tuple(bl.shape) not in ((B, 1), (B, S)):
            p.violation(sig(env_name, cfg, "baseline_shape", f"step={step}"), rec, f"POMO: shared baseline has shape {tuple(bl.shape)} for B={B}, S={S}")
        nz = ref_scaler.noise()
        if nz > 1e-2:
            p.add(ill_conditioned_scaling=1)
            continue
        if abs(float(out["loss"]) - float(ref_loss)) > (1e-5 + nz) * (1 + abs(float(ref_loss))):
            p.violation(sig(env_name, cfg, "loss", f"step={step}"), rec, f"POMO B={B} S={S}: loss {float(out['loss'])} vs shared-baseline reference {float(ref_loss)} (baseline = mean over the {S} starts of each instance)")
            continue
        num, den = grad_diff(grads(out["loss"], params), grads(ref_loss, params))
        if num > 1e-5 + (1e-4 + nz) * den:
            p.violation(sig(env_name, cfg, "policy_gradient", f"step={step}"), rec, f"POMO B={B} S={S}: policy gradient differs from the reference (max abs diff {num})")
        p.outcome(f"{cfg}|{round(float(ref_loss), 4)}")
    p.sample(dict(part="pomo", env=skey, batch=ids, num_starts=S), cap=1)
    return p


def unit_symnco(item):
    from rl4co.models.zoo import SymNCO

    _, skey, B, A, S, seed = item
    p = Partial()
    spec, env, batch, ids = batch_of(skey, B, seed)
    policy = make("symnco", env, 0, train=True)
    model = SymNCO(env, policy, num_augment=A, num_starts=S)
    params = [q for q in policy.parameters()]
    cfg = f"symnco|A={A}|S={S}"
    env_name = skey.partition(":")[0]
    rec = dict(kind="symnco", spec=skey, B=B, A=A, S=S, instances=ids)
    try:
        out = capture_shared_step(model, batch.clone())
    except Exception as e:  # noqa: BLE001
        p.violation(sig(env_name, cfg, f"crash:{type(e).__name__}", f"B={B}"), rec, f"SymNCO B={B} A={A} S={S}: shared_step crashed: {type(e).__name__}: {str(e)[:100]}")
        return p
    r, ll = out["reward"].detach(), out["log_likelihood"]
    p.add(states=1, evaluations=1, transitions=1)
    p.case(f"{skey}|{cfg}|{B}")
    S_eff = max(S, 1)
    if r.numel() != B * A * S_eff:
        p.violation(sig(env_name, cfg, "shape", f"B={B}"), rec, f"SymNCO: {r.numel()} rollouts for B={B}, A={A}, S={S}")
        return p
    # policy output rows are ordered (start, augment, batch): row = s*A*B + a*B + b
    R = r.reshape(S_eff, A, B).permute(2, 1, 0)  # [B, A, S]
    LL = ll.reshape(S_eff, A, B).permute(2, 1, 0)
    l_ps = -((R - R.mean(dim=1, keepdim=True)) * LL).mean() if A > 1 else torch.zeros(())
    l_ss = -((R - R.mean(dim=2, keepdim=True)) * LL).mean() if S_eff > 1 else torch.zeros(())
    ref = l_ps + model.beta * l_ss
    lib = out["loss_ps"] + model.beta * out["loss_ss"]
    lib_t = lib if isinstance(lib, torch.Tensor) else torch.tensor(float(lib))
    trig = "n_aug!=n_start" if (A != S_eff and A > 1 and S_eff > 1) else "n_aug==n_start_or_1"
    if abs(float(lib_t) - float(ref)) > 1e-5 * (1 + abs(float(ref))):
        p.violation(sig(env_name, cfg, "loss", trig), rec, f"SymNCO B={B} n_aug={A} n_start={S}: loss_ps + beta*loss_ss = {float(lib_t)} vs reference {float(ref)} (baselines = mean over the augmentations of the same (instance, start) resp. over the starts of the same (instance, augmentation))")
    elif isinstance(lib, torch.Tensor) and lib.requires_grad:
        num, den = grad_diff(grads(lib, params), grads(ref, params))
        if num > 1e-5 + 1e-4 * den:
            p.violation(sig(env_name, cfg, "policy_gradient", trig), rec, f"SymNCO B={B} n_aug={A} n_start={S}: gradient of the symmetricity losses differs from the reference (max abs diff {num})")
    p.outcome(f"{cfg}|{round(float(ref), 4)}")
    p.sample(dict(part="symnco", env=skey, batch=ids, n_aug=A, n_start=S), cap=1)
    return p


# ------------------------------------------------------------------------------------------- PPO


class _Opt:
    def zero_grad(self):
        pass

    def step(self):
        pass


def unit_ppo(item):
    """PPO.shared_step with a REAL optimiser (plain SGD, large step) and several inner epochs, so that from the second
    inner step on the probability ratios leave the clip range.  Every inner-step loss handed to manual_backward is
    captured together with a snapshot of the parameters it was computed with; the reference objective is rebuilt
    from scratch for each of them (same rollout, snapshot parameters) and value + gradients are compared."""
    from rl4co.models.rl import PPO
    from rl4co.models.rl.common.critic import CriticNetwork

    _, skey, B, clip, ent, norm_adv, seed = item
    p = Partial()
    spec, env, batch, ids = batch_of(skey, B, seed)
    policy = make("am_inst", env, 0, train=True)
    critic = CriticNetwork(copy.deepcopy(policy.encoder), embed_dim=16, hidden_dim=32)
    n_inner = 3
    model = PPO(env, policy, critic=critic, clip_range=clip, ppo_epochs=n_inner, mini_batch_size=B, entropy_lambda=ent, normalize_adv=norm_adv, max_grad_norm=None)
    allp = list(policy.parameters()) + list(critic.parameters())
    opt = torch.optim.SGD(allp, lr=0.5)
    captured = []

    def manual_backward(loss):
        g = grads(loss, allp)
        captured.append((float(loss), [x.clone() for x in g], copy.deepcopy(policy.state_dict()), copy.deepcopy(critic.state_dict())))
        loss.backward()

    model.optimizers = lambda: opt
    model.manual_backward = manual_backward
    model.clip_gradients = lambda *a, **k: None
    cfg = f"ppo|clip={clip}|ent={ent}|norm={norm_adv}"
    env_name = skey.partition(":")[0]
    rec = dict(kind="ppo", spec=skey, B=B, clip=clip, ent=ent, norm_adv=norm_adv, instances=ids)
    init_policy, init_critic = copy.deepcopy(policy.state_dict()), copy.deepcopy(critic.state_dict())
    try:
        capture_shared_step(model, batch.clone())
    except Exception as e:  # noqa: BLE001
        p.violation(sig(env_name, cfg, f"crash:{type(e).__name__}", f"B={B}"), rec, f"PPO {cfg} B={B}: shared_step crashed: {type(e).__name__}: {str(e)[:100]}")
        return p
    # the rollout PPO collected (old actions / log-probs / rewards), recomputed with the INITIAL parameters
    ref_pol = make("am_inst", env, 0, train=True)
    ref_cri = CriticNetwork(copy.deepcopy(ref_pol.encoder), embed_dim=16, hidden_dim=32)
    ref_pol.load_state_dict(init_policy)
    ref_cri.load_state_dict(init_critic)
    with torch.no_grad(), Seam().active():
        td = env.reset(batch.clone())
        old = ref_pol(td.clone(), env, phase="train")
    refp = list(ref_pol.parameters()) + list(ref_cri.parameters())
    outside = 0
    for k, (lib_loss, lib_g, sp, sc) in enumerate(captured):
        ref_pol.load_state_dict(sp)
        ref_cri.load_state_dict(sc)
        new = ref_pol(td.clone(), env, actions=old["actions"], return_entropy=True, return_sum_log_likelihood=False)
        ratio = torch.exp(new["log_likelihood"].sum(-1) - old["log_likelihood"]).view(-1, 1)
        if k == 0 and float((ratio - 1).abs().max()) > 1e-4:
            p.violation(sig(env_name, cfg, "ratio_not_one", f"B={B}"), rec, f"PPO: probability ratio at the first inner step is {ratio.flatten().tolist()}, expected 1")
        outside += int(((ratio < 1 - clip) | (ratio > 1 + clip)).sum())
        rew = old["reward"].view(-1, 1)
        value = ref_cri(td)
        adv = rew - value.detach()
        if norm_adv:
            adv = (adv - adv.mean()) / (adv.std() + 1e-8)
        surr = -torch.min(ratio * adv, torch.clamp(ratio, 1 - clip, 1 + clip) * adv).mean()
        ref = surr + 0.5 * F.huber_loss(value, rew) - ent * new["entropy"].mean()
        p.add(states=1, evaluations=1, transitions=1)
        p.case(f"{skey}|{cfg}|{B}|{k}")
        trig = "first_inner_step" if k == 0 else "later_inner_step"
        if abs(lib_loss - float(ref)) > 1e-4 * (1 + abs(float(ref))):
            p.violation(sig(env_name, cfg, "loss", trig), dict(rec, inner_step=k), f"PPO {cfg} B={B} inner step {k}: loss {lib_loss} vs reference clipped surrogate {float(ref)} (ratios {[round(x, 3) for x in ratio.flatten().tolist()]})")
            continue
        num, den = grad_diff(lib_g, grads(ref, refp))
        if num > 1e-4 + 1e-3 * den:
            p.violation(sig(env_name, cfg, "gradient", trig), dict(rec, inner_step=k), f"PPO {cfg} B={B} inner step {k}: gradient differs from the reference objective (max abs diff {num}, scale {den})")
        p.outcome(f"{cfg}|{k}|{round(float(ref), 3)}")
    p.add(ratios_outside_clip_range=outside)
    p.sample(dict(part="ppo", env=skey, batch=ids, clip=clip, entropy_lambda=ent, normalize_adv=norm_adv, inner_steps=len(captured), ratios_outside_clip_range=outside), cap=1)
    return p


def unit(item):
    torch.manual_seed(0)
    return dict(reinforce=unit_reinforce, pomo=unit_pomo, symnco=unit_symnco, ppo=unit_ppo)[item[0]](item)


def main(tier):
    rep = Report(PID, tier, rule="one case = one training step of one (algorithm, baseline / factors, reward scale, batch) configuration, the library loss and its gradient compared with the reference surrogate rebuilt from the rollout; successive steps cover stateful baselines; distinct = distinct (configuration, step)")
    rep.assumptions = [
        "policies: tiny attention models with instance normalisation in train() mode; rollouts fixed by the RNG seam's default answers",
        "the rollout baseline is exercised through the `extra` values a wrapped dataset carries (greedy rewards of a frozen copy of the policy)",
        "SymNCO's invariance loss (cosine similarity of projected embeddings) is not a policy-gradient surrogate and is not judged",
        "PPO: three inner epochs with mini-batch = batch and a real SGD optimiser (lr 0.5) so that later inner steps see ratios outside the clip range; each captured inner-step loss is re-derived from a parameter snapshot",
    ]
    seed = seed_from_env()
    items = []
    envs = ("tsp", "cvrp") if tier == "thorough" else ("tsp",)
    for skey in envs:
        for bname in ("no", "mean", "exponential", "warmup", "extra", "critic", "a2c"):
            for scale in (None, 2, "norm", "scale"):
                for B in (1, 2, 3):
                    if tier == "quick" and scale in (2, "scale") and bname not in ("mean", "critic"):
                        continue
                    items.append(("reinforce", skey, bname, scale, B, seed))
        for B in (1, 2, 3):
            for S in (2, 3):
                items.append(("pomo", skey, B, S, seed))
                items.append(("pomo", skey, B, S, seed, "norm"))
        for B in (1, 2):
            for A in (1, 2, 3):
                for S in (1, 2, 3):
                    if A == 1 and S == 1:
                        continue
                    items.append(("symnco", skey, B, A, S, seed))
        for B in (2, 3):
            for clip in (0.1, 0.2):
                for ent in (0.0, 0.1):
                    for na in (False, True):
                        items.append(("ppo", skey, B, clip, ent, na, seed))
    only = os.environ.get("VERIF_ONLY")
    if only:
        items = [i for i in items if only in str(i)]
    rep.merge_all(pmap(unit, items))
    rep.stats["traces_validated_against_impl"] = rep.stats.get("evaluations", 0)
    return rep.finish()


def replay(rec):
    k = rec["kind"]
    if k == "reinforce":
        p = unit(("reinforce", rec["spec"], rec["baseline"], rec["scale"], rec["B"], 0))
    elif k == "pomo":
        p = unit(("pomo", rec["spec"], rec["B"], rec["S"], 0, rec.get("scale")))
    elif k == "symnco":
        p = unit(("symnco", rec["spec"], rec["B"], rec["A"], rec["S"], 0))
    else:
        p = unit(("ppo", rec["spec"], rec["B"], rec["clip"], rec["ent"], rec["norm_adv"], 0))
    return bool(p.violations), "; ".join(v["msg"] for v in p.violations[:2]) or "loss and gradient equal the reference surrogate"
