"""C10 — decoding distributions are proper and confined to feasible actions.

Engine E5 (complete Cartesian enumeration) on the REAL `rl4co.utils.decoding.process_logits`,
`DecodingStrategy.greedy` and `DecodingStrategy.sampling` (plus the `Greedy(...).step` / `Sampling(...).step`
entry points, so that the plumbing of the parameters is exercised as well).

Enumerated (one case = one (configuration, row)):
  rows      every logit vector of length n over ALPHABET (all n-tuples, hence every tie pattern of every
            value: the "0 (tie)" letter of the design is the repeated letter of an n-tuple) x EVERY mask
            with at least one feasible action; all rows of one n form ONE batch, so rows with different
            masks / ties / magnitudes sit next to each other (row independence).
  config    temperature {0.05,0.5,1,2,50} x top_k {0..n+1} x top_p {0,0.1,0.5,0.9,0.999,1.0} x
            tanh_clipping {0,1,10}, mask_logits=True.
  tiers     quick n in 1..3; thorough n in 1..5 (n=5 over the full alphabet as well, in row chunks).

Oracle (float64, written from the property, shares no code with the library):
  x = tanh(l)*C if C>0 else l;  x[masked] = -inf;  z = x / T      (order documented in process_logits)
  normalisation    no NaN, every log-prob <= 0, |logsumexp(logp)| <= 1e-5
  masked_prob      exp(logp) == 0 exactly on masked entries
  argmax_dropped   some feasible i with z_i = max z (tie-aware) has probability > 0 ("kept" = exp(logp) > 0 in float64)
  top_k            top_k>0: #kept <= #{feasible i: z_i >= k'-th largest z}, k' = min(top_k, n) (the library
                   clamps top_k to the vector length; ties at the k'-th value may all stay)
  top_p_mass       sum of q_i over kept i >= top_p - 1e-6, q = softmax64 of the distribution that ENTERS
                   the nucleus filter (z after the reference top-k filter); top_p<=0 / >=1: no filtering
  shift            tanh_clipping == 0 only: f(l+c) = f(l) for c in {+-3, +-100}, compared tie-aware (probabilities
                   sorted inside groups of equal logits) with |dP| <= 1e-5
  greedy           DecodingStrategy.greedy returns a feasible index whose logp equals the row maximum
  sampling         torch.multinomial / Tensor.multinomial are replaced (scoped) by a seam that answers EVERY
                   index of float32 probability > 0, one after the other, for every row: the action returned
                   must be exactly that index and feasible; the seam also rejects inputs the real
                   multinomial rejects (NaN/inf/negative/zero-sum).  The resampling loop is driven by
                   answering a masked index first (1x and 2x) and a legal one afterwards.
  row_independence permuted batch == permuted result (bitwise); rows evaluated alone == inside the batch.

Numerical notes
  * near-ties: two reference logits closer than 1e-6 (relative) count as tied (float32 resolution).  With this
    alphabet only C*tanh(8) vs C*tanh(1e4) is that close.
  * shift: every l+c (l in ALPHABET, c in +-3, +-100) is exact in float32, so there is no absorption in
    the addition; the division by T rounds (ulp 0.016 at 2e5) but two entries near 1e4 are always the
    same letter, i.e. an exact tie, and every other pair differs by > 9000 (probability 0 either way).  The
    shift test therefore runs over the whole alphabet including +-1e4.
  * `process_logits` writes -inf into the caller's tensor when tanh_clipping == 0: inputs are always cloned.
Out of bound: NaN/inf logits, top_p < 1e-7 (1-p rounds to 1 in float32), all-masked rows, mask_logits=False.
"""
from __future__ import annotations

import math
import os

import torch

from ..core import Partial, Report, pmap, seed_from_env

PID = "C10"
ENV = "decoding"

ALPHABET = (-1e4, -8.0, -1.0, 0.0, 0.5, 1.0, 8.0, 1e4)
TEMPS = (0.05, 0.5, 1.0, 2.0, 50.0)
TOP_PS = (0.0, 0.1, 0.5, 0.9, 0.999, 1.0)
TANHS = (0.0, 1.0, 10.0)
SHIFTS = (3.0, -3.0, 100.0, -100.0)
CHUNK_ROWS = 70000  # rows per work unit (memory / load balance)

TIE_RTOL = 1e-6
NORM_TOL = 1e-5
MASS_TOL = 1e-6
SHIFT_ATOL = 1e-5  # largest deviation observed on the unchanged tree: 8.8e-8 (float32 rounding of (l+c)/T)
SOLO_ATOL = 1e-6
INF = float("inf")


def D():
    """the module under test; looked up at call time (a test may swap functions in it)"""
    import rl4co.utils.decoding as dec

    return dec


# ---------------------------------------------------------------------------------------------
# enumeration of rows
# ---------------------------------------------------------------------------------------------


def n_tuples(n):
    return len(ALPHABET) ** n


def build_rows(n, t0, t1):
    """rows = (tuple index t in [t0,t1)) x (all masks with >= 1 True).  Returns L [R,n] f32, M [R,n] bool."""
    A = torch.tensor(ALPHABET, dtype=torch.float32)
    base = len(ALPHABET)
    t = torch.arange(t0, t1)
    digits = torch.stack([(t // base**j) % base for j in range(n)], dim=1)  # [T,n]
    Lt = A[digits]
    m = torch.arange(1, 2**n)
    Mt = torch.stack([((m >> j) & 1).bool() for j in range(n)], dim=1)  # [2^n-1, n]
    L = Lt.repeat_interleave(Mt.shape[0], dim=0)
    M = Mt.repeat(Lt.shape[0], 1)
    return L.contiguous(), M.contiguous()


def chunks_of(n):
    per_tuple = 2**n - 1
    tuples_per_chunk = max(1, CHUNK_ROWS // per_tuple)
    T = n_tuples(n)
    out = []
    t0 = 0
    while t0 < T:
        out.append((t0, min(T, t0 + tuples_per_chunk)))
        t0 += tuples_per_chunk
    return out


def cfg_name(k, p, tc):
    parts = []
    if tc > 0:
        parts.append("tanh")
    if k > 0:
        parts.append("top_k")
    if 0.0 < p < 1.0:
        parts.append("top_p")
    return "+".join(parts) or "plain"


# ---------------------------------------------------------------------------------------------
# the functions under test (always on clones: process_logits writes into its argument)
# ---------------------------------------------------------------------------------------------


def lib_process(L, M, T, k, p, tc):
    return D().process_logits(L.clone(), M.clone(), temperature=T, top_p=p, top_k=k, tanh_clipping=tc, mask_logits=True)


# ---------------------------------------------------------------------------------------------
# float64 reference
# ---------------------------------------------------------------------------------------------


def reference(L, M, T, k, p, tc):
    x = L.double()
    if tc > 0:
        x = torch.tanh(x) * tc
    x = x.masked_fill(~M, -INF)
    z = x / T
    n = L.shape[1]
    zmax = z.max(-1, keepdim=True).values
    top = M & (z >= zmax - TIE_RTOL * zmax.abs().clamp(min=1.0))  # the (tied) most likely feasible actions
    if k > 0:
        kk = min(k, n)
        kth = z.topk(kk, dim=-1).values[:, kk - 1 : kk]  # -inf if fewer than kk feasible
        tol = TIE_RTOL * kth.abs().clamp(min=1.0)
        tol = torch.where(torch.isinf(kth), torch.zeros_like(tol), tol)
        allowed = (M & (z >= kth - tol)).sum(-1)  # how many may survive top-k (ties at the k-th value included)
        allowed = torch.maximum(allowed, torch.full_like(allowed, 1))
        enter = z.masked_fill(z < kth, -INF)
    else:
        allowed = None
        enter = z
    q = torch.softmax(enter, dim=-1)  # distribution entering the nucleus filter
    return dict(z=z, top=top, allowed=allowed, q=q)


def judge(L, M, T, k, p, tc, lp):
    """row-local clauses.  Returns {observable: (bool tensor of failing rows, trigger tensor-or-str, detail fn)}"""
    ref = reference(L, M, T, k, p, tc)
    lp64 = lp.double()
    P = lp64.exp()
    kept = P > 0  # the support of the distribution ("kept" = positive probability, exactly as the property says; NaN -> not kept)
    out = {}
    nan = torch.isnan(lp64).any(-1)
    lse = torch.logsumexp(lp64.masked_fill(torch.isnan(lp64), 0.0), dim=-1)
    bad_norm = nan | (lp64 > 1e-6).any(-1) | ~(lse.abs() <= NORM_TOL)
    out["normalisation"] = (bad_norm, lambda i: "nan" if bool(nan[i]) else "sum_ne_1", lambda i: f"log-probs {lp[i].tolist()} logsumexp={lse[i].item():.3g}")
    bad_mask = ((P != 0) & ~M).any(-1)
    out["masked_prob"] = (bad_mask, lambda i: "masked_positive", lambda i: f"probabilities {P[i].tolist()} on mask {M[i].tolist()}")
    bad_top = ~((ref["top"] & kept & ~torch.isnan(lp64)).any(-1))
    out["argmax_dropped"] = (
        bad_top,
        lambda i: "tie_at_top" if int(ref["top"][i].sum()) > 1 else "unique_top",
        lambda i: f"most likely feasible action(s) {ref['top'][i].nonzero().flatten().tolist()} all have probability 0: log-probs {lp[i].tolist()}",
    )
    if k > 0:
        cnt = kept.sum(-1)
        bad_k = cnt > ref["allowed"]
        out["top_k"] = (bad_k, lambda i: "kept_gt_k", lambda i: f"{int(cnt[i])} actions kept, at most {int(ref['allowed'][i])} allowed (ties included): log-probs {lp[i].tolist()}")
    if p > 0:
        mass = (ref["q"] * (kept & ~torch.isnan(lp64))).sum(-1)
        bad_p = ~(mass >= min(p, 1.0) - MASS_TOL)
        out["top_p_mass"] = (bad_p, lambda i: "mass_lt_p", lambda i: f"kept mass {mass[i].item():.9f} < top_p={p} of the distribution entering the nucleus filter {ref['q'][i].tolist()}; log-probs {lp[i].tolist()}")
    return out, ref, kept


def canon(L, P):
    """probabilities sorted inside groups of equal logits (tie-aware comparison)"""
    o1 = torch.sort(P, dim=-1, stable=True).indices
    o2 = torch.sort(L.gather(-1, o1), dim=-1, stable=True).indices
    return P.gather(-1, o1).gather(-1, o2)


def same_bits(a, b):
    """rows where a and b differ (NaN == NaN)"""
    return ~(((a == b) | (torch.isnan(a) & torch.isnan(b))).all(-1))


# ---------------------------------------------------------------------------------------------
# RNG seam: scoped replacement of torch.multinomial / Tensor.multinomial
# ---------------------------------------------------------------------------------------------


class MultinomialSeam:
    """answers[c] is the LongTensor [B] returned by the c-th multinomial call (the last one repeats).
    Rejects what the real multinomial rejects.  `strict[c]`: the answer must have probability > 0."""

    def __init__(self, answers, strict=None):
        self.answers = answers
        self.strict = strict or [True] * len(answers)
        self.calls = 0
        self.via = []

    def _answer(self, via, probs, num_samples=1, replacement=False, *, generator=None, out=None):
        if probs.dim() != 2 or num_samples != 1:
            raise RuntimeError(f"seam: unexpected multinomial call shape={tuple(probs.shape)} num_samples={num_samples}")
        if not bool(torch.isfinite(probs).all()) or bool((probs < 0).any()):
            raise RuntimeError("probability tensor contains either `inf`, `nan` or element < 0")
        if bool((probs.sum(-1) <= 0).any()):
            raise RuntimeError("invalid multinomial distribution (sum of probabilities <= 0)")
        if self.calls > len(self.answers) + 20:
            raise RuntimeError("seam: resampling does not terminate")
        c = min(self.calls, len(self.answers) - 1)
        ans = self.answers[c]
        if ans.shape[0] != probs.shape[0]:
            raise RuntimeError("seam: batch size mismatch")
        if self.strict[c] and bool((probs.gather(1, ans[:, None]) <= 0).any()):
            raise AssertionError("seam (harness): forced answer has probability 0")
        self.calls += 1
        self.via.append(via)
        return ans[:, None].clone()

    def __enter__(self):
        self._old_fn = torch.multinomial
        self._had = "multinomial" in torch.Tensor.__dict__
        self._old_m = torch.Tensor.__dict__.get("multinomial")
        seam = self

        def fn(probs, *a, **kw):
            return seam._answer("torch.multinomial", probs, *a, **kw)

        def meth(self_t, *a, **kw):
            return seam._answer("Tensor.multinomial", self_t, *a, **kw)

        torch.multinomial = fn
        torch.Tensor.multinomial = meth
        return self

    def __exit__(self, *exc):
        torch.multinomial = self._old_fn
        if self._had:
            torch.Tensor.multinomial = self._old_m
        else:
            del torch.Tensor.multinomial
        return False


# ---------------------------------------------------------------------------------------------
# violations
# ---------------------------------------------------------------------------------------------


def sig(config, observable, trigger):
    return dict(property=PID, env=ENV, config=config, observable=observable, trigger=trigger)


def rec(L, M, i, T, k, p, tc, **extra):
    r = dict(kind="row", logits=[float(v) for v in L[i].tolist()], mask=[bool(v) for v in M[i].tolist()], temperature=T, top_k=k, top_p=p, tanh_clipping=tc)
    r.update(extra)
    return r


def report_rows(pt, bad, L, M, T, k, p, tc, observable, trigger_fn, detail_fn, cap=2, **extra):
    nbad = int(bad.sum())
    if not nbad:
        return
    idx = bad.nonzero().flatten()[:cap].tolist()
    for i in idx:
        trig = trigger_fn(i) if callable(trigger_fn) else trigger_fn
        pt.violation(
            sig(cfg_name(k, p, tc), observable, trig),
            rec(L, M, i, T, k, p, tc, **{kk: (vv(i) if callable(vv) else vv) for kk, vv in extra.items()}),
            f"logits {L[i].tolist()} mask {M[i].tolist()} T={T} top_k={k} top_p={p} tanh={tc}: {detail_fn(i)}",
        )
    pt.add(violations_raw=nbad - len(idx))


# ---------------------------------------------------------------------------------------------
# one configuration on one batch
# ---------------------------------------------------------------------------------------------


def find_crash_row(L, M, T, k, p, tc, limit=3000):
    for i in range(min(limit, L.shape[0])):
        try:
            lib_process(L[i : i + 1], M[i : i + 1], T, k, p, tc)
        except Exception:
            return i
    return None


def check_config(pt, L, M, T, k, p, tc, seed, full=True):
    """all clauses for one configuration on the batch (L, M).  Returns the number of row-level function evaluations."""
    R, n = L.shape
    cname = cfg_name(k, p, tc)
    evals = 0
    try:
        lp = lib_process(L, M, T, k, p, tc)
    except Exception as e:
        i = find_crash_row(L, M, T, k, p, tc)
        pt.violation(
            sig(cname, "normalisation", f"exception:{type(e).__name__}"),
            rec(L, M, i if i is not None else 0, T, k, p, tc, whole_batch=i is None),
            f"process_logits raised {type(e).__name__}: {str(e)[:120]} (T={T} top_k={k} top_p={p} tanh={tc}; witness row {i})",
        )
        return R
    evals += R
    clauses, ref, kept = judge(L, M, T, k, p, tc, lp)
    for obs, (bad, trig, detail) in clauses.items():
        report_rows(pt, bad, L, M, T, k, p, tc, obs, trig, detail)
    kc = kept.sum(-1)
    for c in torch.unique(kc).tolist():
        pt.outcome(f"n{n}|{cname}|kept{int(c)}")
    if bool(((ref["top"].sum(-1) > 1) & (kc < M.sum(-1))).any()):
        pt.outcome(f"n{n}|{cname}|filtered_with_tie_at_top")

    # ---- greedy --------------------------------------------------------------------------------
    try:
        g = D().DecodingStrategy.greedy(lp, M)
        evals += R
        gl = lp.gather(1, g[:, None]).squeeze(1)
        mx = lp.max(-1).values
        infeasible = ~M.gather(1, g[:, None]).squeeze(1)
        notmax = ~(gl == mx)
        report_rows(pt, infeasible, L, M, T, k, p, tc, "greedy", "infeasible", lambda i: f"greedy returned masked action {int(g[i])}; log-probs {lp[i].tolist()}")
        report_rows(pt, notmax & ~infeasible, L, M, T, k, p, tc, "greedy", "not_argmax", lambda i: f"greedy returned {int(g[i])} (logp {gl[i].item()}) but the maximum is {mx[i].item()}; log-probs {lp[i].tolist()}")
        if bool((g != ref["z"].argmax(-1)).any()):
            pt.outcome(f"n{n}|greedy_tie_broken_differently")
    except AssertionError as e:
        rows = (~M.gather(1, lp.argmax(-1, keepdim=True)).squeeze(1)) | torch.isnan(lp).any(-1)
        if not bool(rows.any()):
            rows = torch.ones(R, dtype=torch.bool)
        report_rows(pt, rows, L, M, T, k, p, tc, "greedy", "assertion", lambda i: f"DecodingStrategy.greedy raised AssertionError({e}) on a batch containing this row; log-probs {lp[i].tolist()}")

    # ---- sampling: every answer of multinomial with probability > 0 ------------------------------
    evals += check_sampling(pt, L, M, T, k, p, tc, lp, seed)

    # ---- shift invariance (tanh_clipping == 0 only) ------------------------------------------------
    if tc == 0:
        P0 = canon(L, lp.double().exp())
        for c in SHIFTS:
            try:
                lpc = lib_process(L + c, M, T, k, p, tc)
            except Exception as e:
                pt.violation(sig(cname, "shift", f"exception:{type(e).__name__}"), rec(L, M, 0, T, k, p, tc, shift=c, whole_batch=True), f"process_logits(l{c:+g}) raised {type(e).__name__}: {str(e)[:120]}")
                continue
            evals += R
            Pc = canon(L, lpc.double().exp())
            dev = (P0 - Pc).abs().masked_fill(torch.isnan(P0) & torch.isnan(Pc), 0.0).max(-1).values
            bad = ~(dev <= SHIFT_ATOL)
            ok = dev[~bad]
            if ok.numel():
                pt.shift_dev = max(getattr(pt, "shift_dev", 0.0), float(ok.max()))
            report_rows(
                pt, bad, L, M, T, k, p, tc, "shift", "shift_small" if abs(c) < 10 else "shift_large",
                lambda i: f"f(l{c:+g}) = {lpc[i].double().exp().tolist()} but f(l) = {lp[i].double().exp().tolist()} (max deviation {dev[i].item():.3g})", shift=c,
            )
            if bool(same_bits(lp.exp(), lpc.exp()).any()):
                pt.outcome(f"n{n}|shift_changes_float_bits")

    # ---- row independence --------------------------------------------------------------------------
    if full:
        gen = torch.Generator().manual_seed(1000003 * seed + 7919 * n + 31 * k + int(1000 * p) + int(7 * T * 100) + int(tc))
        for mode in ("reverse", "shuffle"):
            perm = torch.arange(R - 1, -1, -1) if mode == "reverse" else torch.randperm(R, generator=gen)
            try:
                lpp = lib_process(L[perm], M[perm], T, k, p, tc)
            except Exception as e:
                pt.violation(sig(cname, "row_independence", f"exception:{type(e).__name__}"), rec(L, M, 0, T, k, p, tc, whole_batch=True), f"process_logits on the permuted batch raised {type(e).__name__}: {str(e)[:120]}")
                continue
            evals += R
            inv = torch.empty_like(perm)
            inv[perm] = torch.arange(R)
            bad = same_bits(lpp[inv], lp)
            report_rows(
                pt, bad, L, M, T, k, p, tc, "row_independence", "permuted_batch",
                lambda i: f"row {i}: {lp[i].tolist()} in the enumeration order but {lpp[inv][i].tolist()} in the {mode} order of the same batch",
                batch=dict(n=n, rows=R), row=lambda i: int(i), mode=mode,
            )
        for i in sorted({0, R - 1, R // 2, R // 3, (2 * R) // 3, (7 * R) // 11}):
            try:
                solo = lib_process(L[i : i + 1], M[i : i + 1], T, k, p, tc)
            except Exception as e:
                pt.violation(sig(cname, "row_independence", f"exception:{type(e).__name__}"), rec(L, M, i, T, k, p, tc), f"process_logits on the single row raised {type(e).__name__}: {str(e)[:120]}")
                continue
            evals += 1
            pt.add(traces_validated_against_impl=1)
            a, b = solo[0].double(), lp[i].double()
            same_support = bool(((a > -INF) == (b > -INF)).all()) and bool((torch.isnan(a) == torch.isnan(b)).all())
            close = bool(((a.exp() - b.exp()).abs().nan_to_num(0.0) <= SOLO_ATOL).all())
            if not (same_support and close):
                pt.violation(
                    sig(cname, "row_independence", "solo_vs_batch"),
                    rec(L, M, i, T, k, p, tc, batch=dict(n=n, rows=R), row=int(i), mode="solo"),
                    f"logits {L[i].tolist()} mask {M[i].tolist()} T={T} top_k={k} top_p={p} tanh={tc}: alone {solo[0].tolist()} vs inside the batch {lp[i].tolist()}",
                )

        # ---- the public entry points Greedy(...).step / Sampling(...).step (parameter plumbing) -------
        evals += check_step(pt, L, M, T, k, p, tc, lp)
    return evals


def check_sampling(pt, L, M, T, k, p, tc, lp, seed):
    R, n = L.shape
    evals = 0
    Pf = lp.exp()  # float32, exactly what DecodingStrategy.sampling hands to multinomial
    if bool(torch.isnan(Pf).any()):
        Pf = Pf.nan_to_num(0.0)  # NaN rows are reported by `normalisation`; keep the seam usable for the others
    sampling = D().DecodingStrategy.sampling
    for j in range(n):
        pos = Pf[:, j] > 0
        # a masked index of positive float32 probability is an answer multinomial may give: infeasible action / endless resampling
        report_rows(pt, pos & ~M[:, j], L, M, T, k, p, tc, "sampling", "masked_index_positive_prob", lambda i: f"masked action {j} has sampling probability {Pf[i, j].item():.3g} > 0", forced=j)
        rows = (pos & M[:, j]).nonzero().flatten()
        if rows.numel() == 0:
            continue
        Ls, Ms, lps = L[rows], M[rows], lp[rows]
        ans = torch.full((rows.numel(),), j, dtype=torch.long)
        okrows = ~torch.isnan(lps).any(-1)
        if not bool(okrows.all()):
            rows, Ls, Ms, lps, ans = rows[okrows], Ls[okrows], Ms[okrows], lps[okrows], ans[okrows]
            if rows.numel() == 0:
                continue
        try:
            with MultinomialSeam([ans]) as seam:
                sel = sampling(lps, Ms)
        except AssertionError as e:
            if "harness" in str(e):
                raise
            bad = ~Ms[:, j]
            report_rows(pt, bad if bool(bad.any()) else torch.ones_like(bad), Ls, Ms, T, k, p, tc, "sampling", "assertion", lambda i: f"sampling raised AssertionError({e}) when multinomial answers {j}; log-probs {lps[i].tolist()}", forced=j)
            continue
        except RuntimeError as e:
            report_rows(pt, torch.ones(rows.numel(), dtype=torch.bool), Ls, Ms, T, k, p, tc, "sampling", "invalid_distribution", lambda i: f"multinomial would reject the probabilities: {str(e)[:80]}; log-probs {lps[i].tolist()}", cap=1, forced=j)
            continue
        evals += rows.numel()
        pt.add(sampling_answers=rows.numel())
        infeasible = ~Ms.gather(1, sel[:, None]).squeeze(1)
        changed = sel != ans
        report_rows(pt, infeasible, Ls, Ms, T, k, p, tc, "sampling", "infeasible_returned", lambda i: f"multinomial answer {j} (prob {Pf[rows[i], j].item():.3g}) -> sampling returned masked action {int(sel[i])}", forced=j)
        report_rows(pt, changed & ~infeasible, Ls, Ms, T, k, p, tc, "sampling", "forced_index_changed", lambda i: f"multinomial answered {j} but sampling returned {int(sel[i])}", forced=j)
        if seam.calls != 1:
            pt.note(f"sampling called multinomial {seam.calls}x although the first answer was feasible (T={T} k={k} p={p} tanh={tc} j={j})")
    # ---- resampling loop: the first r answers are a masked index -----------------------------------
    has_masked = (~M).any(-1) & ~torch.isnan(lp).any(-1)
    rows = has_masked.nonzero().flatten()
    if rows.numel():
        Ls, Ms, lps = L[rows], M[rows], lp[rows]
        bad_idx = (~Ms).float().argmax(-1)  # first masked index
        idxs = torch.arange(n)
        good_idx = ((Pf[rows] > 0).float() * (idxs + 1)).argmax(-1)  # last index of positive probability
        for r in (1, 2):
            try:
                with MultinomialSeam([bad_idx] * r + [good_idx], strict=[False] * r + [True]) as seam:
                    sel = sampling(lps, Ms)
            except (AssertionError, RuntimeError) as e:
                if "harness" in str(e):
                    raise
                report_rows(pt, torch.ones(rows.numel(), dtype=torch.bool), Ls, Ms, T, k, p, tc, "sampling", "resample_loop", lambda i: f"sampling raised {type(e).__name__}({str(e)[:80]}) when multinomial first answers the masked index {int(bad_idx[i])}", cap=1, resample=r)
                continue
            evals += rows.numel() * (r + 1)
            infeasible = ~Ms.gather(1, sel[:, None]).squeeze(1)
            report_rows(pt, infeasible, Ls, Ms, T, k, p, tc, "sampling", "resample_loop", lambda i: f"multinomial answered the masked index {int(bad_idx[i])} {r}x, then {int(good_idx[i])}: sampling returned masked action {int(sel[i])}", resample=r)
            report_rows(pt, (sel != good_idx) & ~infeasible, Ls, Ms, T, k, p, tc, "sampling", "forced_index_changed", lambda i: f"after {r} rejected answers multinomial answered {int(good_idx[i])} but sampling returned {int(sel[i])}", resample=r)
            if seam.calls == r + 1 and seam.via[1:] and all(v == "Tensor.multinomial" for v in seam.via[1:]):
                pt.outcome(f"resampled_{r}x_via_Tensor.multinomial")
    # ---- the real multinomial on the same distributions (conformance of the seam's premise) --------
    # only rows whose masked entries all have probability 0: otherwise (already reported above) the library's
    # resampling loop may never end on a big batch
    safe = (~((Pf > 0) & ~M).any(-1) & ~torch.isnan(lp).any(-1)).nonzero().flatten()
    if safe.numel():
        Ls, Ms, lps = L[safe], M[safe], lp[safe]
        torch.manual_seed(seed * 7 + 1)
        try:
            sel = sampling(lps, Ms)
            evals += safe.numel()
            pt.add(traces_validated_against_impl=safe.numel())
            infeasible = ~Ms.gather(1, sel[:, None]).squeeze(1)
            zero = Pf[safe].gather(1, sel[:, None]).squeeze(1) <= 0
            report_rows(pt, infeasible, Ls, Ms, T, k, p, tc, "sampling", "infeasible_returned", lambda i: f"real multinomial draw: sampling returned masked action {int(sel[i])}; probabilities {Pf[safe[i]].tolist()}")
            if bool((zero & ~infeasible).any()):
                pt.note("real torch.multinomial returned an index of probability 0 (seam premise violated)")
        except Exception as e:
            report_rows(pt, torch.ones(safe.numel(), dtype=torch.bool), Ls, Ms, T, k, p, tc, "sampling", "invalid_distribution", lambda i: f"real sampling raised {type(e).__name__}: {str(e)[:100]}", cap=1)
    return evals


def check_step(pt, L, M, T, k, p, tc, lp):
    """Greedy(...).step and Sampling(...).step must decode from the same distribution as process_logits."""
    from tensordict import TensorDict

    R, n = L.shape
    evals = 0
    if bool(torch.isnan(lp).any()):
        return 0
    Pf = lp.exp()
    kw = dict(temperature=T, top_p=p, top_k=k, tanh_clipping=tc, mask_logits=True)
    # greedy
    try:
        dec = D().Greedy(**kw)
        td = dec.step(L.clone(), M.clone(), TensorDict({}, batch_size=[R]))
        a = td["action"]
        evals += R
        infeasible = ~M.gather(1, a[:, None]).squeeze(1)
        notmax = ~(lp.gather(1, a[:, None]).squeeze(1) == lp.max(-1).values)
        report_rows(pt, infeasible, L, M, T, k, p, tc, "greedy", "infeasible", lambda i: f"Greedy.step emitted masked action {int(a[i])}", via="step")
        report_rows(pt, notmax & ~infeasible, L, M, T, k, p, tc, "greedy", "not_argmax", lambda i: f"Greedy.step emitted {int(a[i])}, not a maximiser of the distribution {Pf[i].tolist()}", via="step")
    except Exception as e:
        report_rows(pt, torch.ones(R, dtype=torch.bool), L, M, T, k, p, tc, "greedy", "assertion" if isinstance(e, AssertionError) else f"exception:{type(e).__name__}", lambda i: f"Greedy.step raised {type(e).__name__}: {str(e)[:100]} (batch witness)", cap=1, via="step")
    # sampling: multinomial answers the last index whose probability under step's own distribution is > 0
    try:
        dec = D().Sampling(**kw)
        holder = {}

        class LastPositive(MultinomialSeam):
            def _answer(self, via, probs, *a_, **kw_):
                idxs = torch.arange(probs.shape[1])
                holder["probs"] = probs
                self.answers = [((probs > 0).float() * (idxs + 1)).argmax(-1)]
                return super()._answer(via, probs, *a_, **kw_)

        with LastPositive([torch.zeros(R, dtype=torch.long)]):
            td = dec.step(L.clone(), M.clone(), TensorDict({}, batch_size=[R]))
        a = td["action"]
        evals += R
        infeasible = ~M.gather(1, a[:, None]).squeeze(1)
        report_rows(pt, infeasible, L, M, T, k, p, tc, "sampling", "infeasible_returned", lambda i: f"Sampling.step emitted masked action {int(a[i])} (multinomial input {holder['probs'][i].tolist()})", via="step")
        differs = ~(((holder["probs"] > 0) == (Pf > 0)).all(-1))
        if bool(differs.any()):
            pt.note(f"Sampling.step samples from a distribution with another support than process_logits (T={T} k={k} p={p} tanh={tc})")
    except Exception as e:
        if "harness" in str(e):
            raise
        report_rows(pt, torch.ones(R, dtype=torch.bool), L, M, T, k, p, tc, "sampling", "assertion" if isinstance(e, AssertionError) else ("resample_loop" if "does not terminate" in str(e) else "invalid_distribution"), lambda i: f"Sampling.step raised {type(e).__name__}: {str(e)[:100]} (batch witness)", cap=1, via="step")
    return evals


# ---------------------------------------------------------------------------------------------
# work units
# ---------------------------------------------------------------------------------------------


def unit(item):
    """one unit = one (n, chunk of logit tuples, temperature, tanh_clipping); loops over top_k and top_p."""
    n, t0, t1, T, tc, seed = item
    pt = Partial()
    pt.shift_dev = 0.0
    L, M = build_rows(n, t0, t1)
    R = L.shape[0]
    nontrivial = int((M.sum(-1) >= 2).sum())
    for k in range(0, n + 2):
        for p in TOP_PS:
            ev = check_config(pt, L, M, T, k, p, tc, seed)
            pt.add(states=R, evaluations=R, transitions=ev, distinct_count=nontrivial, configs=1)
    pt.maxi(max_batch=R)
    if t0 == 0:
        pt.sample(dict(n=n, rows_in_batch=R, temperature=T, tanh_clipping=tc, top_k=list(range(0, n + 2)), top_p=list(TOP_PS), first_row=dict(logits=L[0].tolist(), mask=M[0].tolist())), cap=1)
    return pt


def items_for(tier, seed):
    ns = (1, 2, 3) if tier == "quick" else (1, 2, 3, 4, 5)
    only = os.environ.get("VERIF_ONLY")
    items = []
    for n in sorted(ns, reverse=True):  # big units first
        if only and only != f"n{n}":
            continue
        for t0, t1 in chunks_of(n):
            for T in TEMPS:
                for tc in TANHS:
                    items.append((n, t0, t1, T, tc, seed))
    return items


def unit_ptrnet(item):
    """The pointer network does not go through process_logits: its decoder masks and normalises its own pointer logits
    and hands log-probabilities to the shared `decode_logprobs` (greedy / sampling).  For the default flags and the
    documented non-default pair (mask_inner=False, mask_logits=True), on 4-node TSP instances and for EVERY answer of
    the sampler: the emitted tour is feasible (a permutation), greedy emits a feasible tour, and the probabilities of
    all tours the sampler can emit sum to one (no mass leaks to masked nodes)."""
    import math

    import torch

    from ..policies import make
    from ..registry import ALL_SPECS
    from ..seam import ExplorationCapped, Seam, explore

    _, key, seed = item
    spec = ALL_SPECS["tsp"]
    p = Partial()
    insts = [x for x in spec.instances("quick", seed) if len(x[1]["locs"]) == 4][:2]
    for iid, inst in insts:
        env = spec.env(inst)
        td0 = spec.td(inst)
        pol = make(key, env, 0)
        rec = dict(kind="ptrnet", policy=key, instance_id=iid)

        def run(seam):
            with torch.no_grad(), seam.active():
                o = pol(env.reset(td0.clone()), env, phase="test", decode_type="sampling")
            return o["actions"][0].tolist(), float(o["log_likelihood"][0])

        tot, n = 0.0, 0
        try:
            for ch, (acts, ll), seam in explore(run, max_dev=None, limit=3000, float_patterns=False):
                n += 1
                p.add(states=1, transitions=len(acts), evaluations=1)
                if sorted(acts) != list(range(len(acts))):
                    p.violation(dict(property=PID, env="ptrnet_decoder", config=key, observable="infeasible_action", trigger="sampling"), rec, f"{key} on tsp {iid}: sampling emitted {acts}, not a permutation of the nodes")
                    break
                tot += math.exp(ll)
            else:
                p.outcome(f"{key}|{round(tot, 3)}")
                if abs(tot - 1.0) > 1e-3:
                    p.violation(dict(property=PID, env="ptrnet_decoder", config=key, observable="normalisation", trigger="sampling"), rec, f"{key} on tsp {iid}: the {n} tours the sampler can emit carry total probability {tot:.6f}, expected 1 (mass on masked nodes)")
        except ExplorationCapped:
            p.add(caps_hit=1)
        with torch.no_grad(), Seam().active():
            o = pol(env.reset(td0.clone()), env, phase="test", decode_type="greedy")
        acts = o["actions"][0].tolist()
        p.add(states=1, evaluations=1)
        if sorted(acts) != list(range(len(acts))):
            p.violation(dict(property=PID, env="ptrnet_decoder", config=key, observable="infeasible_action", trigger="greedy"), rec, f"{key} on tsp {iid}: greedy emitted {acts}, not a permutation of the nodes")
    p.sample(dict(part="pointer-network decoder", flags=key), cap=1)
    return p


def dispatch(item):
    return unit_ptrnet(item) if item and item[0] == "ptrnet" else unit(item)


def main(tier):
    rep = Report(
        PID,
        tier,
        level="model_checking",
        rule="one case (state) = one (logit vector, mask, temperature, top_k, top_p, tanh_clipping) input judged against the float64 oracle; "
        "transitions = row-level evaluations of process_logits / greedy / sampling (incl. shifted, permuted, solo and step() re-evaluations "
        "and one sampling call per positive-probability multinomial answer); distinct = cases with >= 2 feasible actions",
    )
    rep.assumptions = [
        f"logit alphabet {list(ALPHABET)} (every n-tuple, so every tie pattern), n <= {3 if tier == 'quick' else 5}; all masks with >= 1 feasible action; "
        f"temperature {list(TEMPS)}, top_k 0..n+1, top_p {list(TOP_PS)}, tanh_clipping {list(TANHS)}, mask_logits=True, float32 CPU tensors",
        "NaN/inf logits, all-masked rows, mask_logits=False and top_p below float32 resolution (1-p == 1) are outside the bound",
        "top-p mass is measured against the float64 softmax of the logits entering the nucleus filter (after mask, tanh, temperature and top-k, the documented order)",
        f"reference logits closer than {TIE_RTOL} (relative) count as tied; tolerances: logsumexp {NORM_TOL}, mass {MASS_TOL}, shift |dP| {SHIFT_ATOL} (tie-aware), solo-vs-batch |dP| {SOLO_ATOL}",
        "shift invariance is only demanded with tanh_clipping == 0 (C*tanh(l) is not shift invariant by definition); l+c is exact in float32 for the whole alphabet",
        "randomness is owned through a scoped replacement of torch.multinomial / Tensor.multinomial that answers every index of float32 probability > 0; "
        "the premise that the real multinomial only returns such indices is torch's contract (one real seeded draw per case is run as conformance)",
        "beam search and Evaluate decoding are not part of this check (C12 / C11)",
    ]
    seed = seed_from_env()
    items = items_for(tier, seed)
    D()  # import the library once, before the workers are forked
    parts = pmap(dispatch, items + [("ptrnet", k, seed) for k in ("ptrnet", "ptrnet_mi0")])
    rep.merge_all(parts)
    rep.extra["n_values"] = sorted({i[0] for i in items if i[0] != "ptrnet"})
    rep.extra["shift_max_abs_prob_deviation"] = max([getattr(p, "shift_dev", 0.0) for p in parts] or [0.0])
    rep.extra["alphabet"] = list(ALPHABET)
    return rep.finish()


# ---------------------------------------------------------------------------------------------
# replay of one recorded case (no enumeration machinery)
# ---------------------------------------------------------------------------------------------


def replay(rec_):
    if rec_.get("kind") == "ptrnet":
        pt = unit_ptrnet(("ptrnet", rec_["policy"], 0))
        return bool(pt.violations), "; ".join(v["msg"] for v in pt.violations[:2]) or "pointer-network step distributions are confined to feasible nodes"
    L = torch.tensor([rec_["logits"]], dtype=torch.float32)
    M = torch.tensor([rec_["mask"]], dtype=torch.bool)
    T, k, p, tc = rec_["temperature"], rec_["top_k"], rec_["top_p"], rec_["tanh_clipping"]
    obs = rec_.get("signature", {}).get("observable", "")
    if obs == "row_independence" and rec_.get("mode") in ("reverse", "shuffle", "solo") and "batch" in rec_:
        n = rec_["batch"]["n"]
        # rebuild the chunk that contains the row: find it by content
        for t0, t1 in chunks_of(n):
            Lb, Mb = build_rows(n, t0, t1)
            hit = ((Lb == L).all(-1) & (Mb == M).all(-1)).nonzero().flatten()
            if hit.numel():
                i = int(hit[0])
                pt = Partial()
                check_config(pt, Lb, Mb, T, k, p, tc, seed_from_env())
                vs = [v for v in pt.violations if v["signature"]["observable"] == "row_independence"]
                return bool(vs), (vs[0]["msg"] if vs else f"row {i} of the batch of {Lb.shape[0]} rows: permuted / solo evaluation agrees with the batch")
        return False, "row not found in the enumeration"
    pt = Partial()
    check_config(pt, L, M, T, k, p, tc, seed_from_env(), full=True)
    try:
        lp = lib_process(L, M, T, k, p, tc)
        text = f"process_logits(logits={rec_['logits']}, mask={rec_['mask']}, T={T}, top_k={k}, top_p={p}, tanh={tc}) = {lp[0].tolist()} (probabilities {lp[0].double().exp().tolist()})"
    except Exception as e:
        text = f"process_logits raised {type(e).__name__}: {e}"
    same = [v for v in pt.violations if v["signature"]["observable"] == obs] or pt.violations
    if same:
        return True, text + "\n" + same[0]["msg"]
    return False, text + "\nall C10 clauses hold on this case"
