"""C03 for the scheduling and selection environments: reward of every leaf of the exhaustive tree vs the
objective recomputed from (instance, actions) by independent code (event simulators / set arithmetic)."""
from __future__ import annotations

import os

import torch

from .. import explore as E
from ..core import Partial, pmap, seed_from_env
from ..oracles import sched as OS
from ..rtree import sig
from ..sched import SPECS as SCHED
from ..selection import SPECS as SEL, FLPSpec, MCPSpec

PID = "C03"
SPECS = dict(SCHED)
SPECS.update({k: v for k, v in SEL.items() if k in ("flp", "mcp")})


def env_keys():
    only = os.environ.get("VERIF_ONLY")
    return sorted(k for k in SPECS if not only or only in k)


def objective(spec, inst, h):
    k = spec.kind
    if k in ("fjsp", "jssp"):
        sim = OS.simulate_fjsp(inst, h, jssp=spec.jssp, mask_no_ops=spec.mask_no_ops)
        return -sim.makespan() if sim.done() else None
    if k == "ffsp":
        sim = OS.simulate_ffsp(inst, h, spec.num_stage)
        return -float(sim.makespan()) if sim.done() else None
    if k == "smtwtp":
        return OS.smtwtp_objective(inst, list(h))
    if k == "flp":
        return FLPSpec.objective(inst, h)
    if k == "mcp":
        return MCPSpec.objective(inst, h)
    raise KeyError(k)


def library_rewards(spec, env, td, hists):
    """reward of each row (rows may have different action counts -> grouped)"""
    out = [None] * len(hists)
    by_len = {}
    for i, h in enumerate(hists):
        by_len.setdefault(len(h), []).append(i)
    for L, idxs in by_len.items():
        sub = td[torch.tensor(idxs)].clone()
        if spec.kind == "ffsp":
            J = sub["action_mask"].shape[-1] - 1
            sub = E.step_batch(env, sub, [J] * len(idxs))  # rewards are written once the whole batch is finished
        acts = torch.tensor([list(hists[i]) for i in idxs], dtype=torch.long).reshape(len(idxs), L)
        E._set_bs(env, len(idxs))
        r = env._get_reward(sub, acts).reshape(len(idxs), -1)[:, 0].tolist()
        for i, x in zip(idxs, r):
            out[i] = x
    return out


def unit(item):
    key, tier, seed = item
    spec = SPECS[key]
    p = Partial()
    for iid, inst in spec.instances(tier, seed):
        env = spec.env(inst)
        td0 = spec.td(inst)
        tree = E.explore(env, td0, keep_nodes=False)
        p.add(states=tree.states, transitions=tree.transitions, leaves=len(tree.leaves), trees=1, distinct_count=len(tree.leaves))
        if tree.capped:
            p.add(caps_hit=1)
        if not tree.leaves:
            continue
        level_td, level = tree.leaf_td, [(h, len(h)) for h in tree.leaves]
        for pad in range(3):
            rs = library_rewards(spec, env, level_td, [h for h, _ in level])
            for (h, L), r in zip(level, rs):
                ref = objective(spec, inst, h[:L])
                p.add(evaluations=1)
                if ref is None:
                    continue
                p.outcome(f"{spec.key}|{round(ref, 4)}")
                if abs(r - ref) > 1e-5 * (1 + abs(ref)):
                    p.violation(
                        sig(PID, spec, "reward", "no_padding" if pad == 0 else "padding_steps>=1"),
                        dict(kind="extra_trace", spec=spec.key, instance_id=iid, instance=inst, actions=list(h), solution_len=L, expected=ref, observed=r),
                        f"{spec.key} {iid}: reward {r} != objective {ref} for actions {list(h)} (solution = first {L})",
                    )
            if spec.fixed_horizon or pad == 2:
                break
            # one more padding step for every finished row: every offered action
            mask = level_td["action_mask"].reshape(len(level), -1).tolist()
            rows, acts, nl = [], [], []
            for r_, (h, L) in enumerate(level):
                for a, m in enumerate(mask[r_]):
                    if m:
                        rows.append(r_)
                        acts.append(a)
                        nl.append((h + (a,), L))
            if not rows:
                break
            level_td = E.step_batch(env, level_td[torch.tensor(rows)], acts)
            level = nl
            p.add(transitions=len(rows))
        h = tree.leaves[len(tree.leaves) // 2]
        p.sample(dict(env=spec.key, instance=iid, actions=list(h), objective=objective(spec, inst, h)), cap=1)
        for i in E.pick_indices(len(tree.leaves), 3):
            E.run_solo(env, td0, tree.leaves[i])
            p.add(traces_validated_against_impl=1)
    return p


def run(tier):
    seed = seed_from_env()
    return pmap(unit, [(k, tier, seed) for k in env_keys()])


def replay(rec):
    spec = SPECS[rec["spec"]]
    inst = rec["instance"]
    env = spec.env(inst)
    h = tuple(rec["actions"])
    td, masks, dones = E.run_solo(env, spec.td(inst), h)
    r = library_rewards(spec, env, td, [h])[0]
    ref = objective(spec, inst, h[: rec["solution_len"]])
    return (ref is not None and abs(r - ref) > 1e-5 * (1 + abs(ref))), f"solo replay: reward {r}, objective {ref}"
