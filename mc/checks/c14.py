"""C14 — inference is per-instance: batch composition never changes the answer.

E2 product over batch arrangements: for each bundled constructive policy (inference mode, tiny random weights) and
each supported environment, up to four stackable alphabet instances I1..I4 are decoded greedily
  * alone (batch size 1),
  * in EVERY ordered sub-batch of size 2 and 3 (all 12 + 24 arrangements), and next to a copy of themselves,
  * with multi-start greedy for (batch size, num_starts) in {1,2,3} x {2,3}: rollout (instance i, start s) must not
    depend on the batch size.
Actions, reward and log-likelihood of an instance must agree across all arrangements (1e-5); if the actions differ,
the first differing step must be a float tie (top-2 log-prob gap < 1e-5 in the solo run), which is skipped and counted.
Policies that draw random numbers at inference (MatNet's random column embedding) run under the RNG seam with a
row-keyed answer (every row gets the same draw), so a row's draw cannot depend on its position.
"""
from __future__ import annotations

import itertools
import os

import torch

from .. import explore as E
from ..core import Partial, Report, pmap, seed_from_env
from ..policies import PAIRS, make
from ..registry import ALL_SPECS
from ..seam import Seam

PID = "C14"
TOL = 1e-5


def sig(pkey, skey, observable, trigger):
    return dict(property=PID, env=skey.partition(":")[0], config=f"{pkey}|{skey.partition(':')[2]}", observable=observable, trigger=trigger)


class _MixedMTVRP:
    """MTVRP batches are mixed by design (every row carries its own variant features): a pseudo-environment whose
    alphabet takes instances of several variants (with and without time windows / limits / backhauls / open routes)"""

    key = "mtvrp:mixed"
    kind = "mtvrp"
    PARTS = ("mtvrp:vrptw", "mtvrp:cvrp", "mtvrp:ovrpl", "mtvrp:vrpbltw")

    def instances(self, tier, seed):
        out = []
        for k in self.PARTS:
            hand = [x for x in ALL_SPECS[k].instances("quick", seed) if not x[0].startswith("gen-")]
            i = 1 if len(hand) > 1 else 0
            out.append((f"{k.partition(':')[2]}/{hand[i][0]}", hand[i][1]))
        return out

    def env(self, inst, **kw):
        return ALL_SPECS[self.PARTS[0]].env(inst, **kw)

    def td(self, inst):
        return ALL_SPECS[self.PARTS[0]].td(inst)


EXTRA_PAIRS = [("am", "mtvrp:mixed", dict(base=True)), ("am", "mtvrp:vrptw", dict(base=True))]


def spec_of(skey):
    return _MixedMTVRP() if skey == "mtvrp:mixed" else ALL_SPECS[skey]


def shape_sig(td):
    return E.group_sig(td)


def stackable_instances(spec, seed, k=4):
    insts = spec.instances("quick", seed)
    groups = {}
    for iid, inst in insts:
        td = spec.td(inst)
        groups.setdefault(shape_sig(td), []).append((iid, inst, td))
    g = max(groups.values(), key=len)
    # spread over the group, but always include the last (seeded generator) instances if they stack
    idx = E.pick_indices(len(g), k)
    return [g[i] for i in idx]


def decode(pol, env, tds, flags, **kw):
    td = env.reset(torch.cat(tds, 0))
    E._set_bs(env, len(tds) * max(1, kw.get("num_starts", 1)))
    with torch.no_grad(), Seam(tile_rows=True).active():
        out = pol(td, env, phase="test", **kw)
    return out


def top2_gap_at(pol, env, td0, prefix):
    """gap between the two largest feasible log-probs after `prefix` in a solo run (ConstructivePolicy protocol)"""
    td = env.reset(td0.clone())
    with torch.no_grad(), Seam(tile_rows=True).active():
        hidden, _ = pol.encoder(td)
        td, _, hidden = pol.decoder.pre_decoder_hook(td, env, hidden, 0)
        for a in prefix:
            td.set("action", torch.tensor([a]))
            E._set_bs(env, 1)
            td = env.step(td)["next"]
        logits, mask = pol.decoder(td, hidden, 0)
        lg = logits.double().reshape(-1).masked_fill(~mask.reshape(-1), float("-inf"))
        top = torch.topk(lg, min(2, int(mask.sum())))[0]
        return float(top[0] - top[1]) if len(top) > 1 else float("inf")


def unit(item):
    pkey, skey, flags, tier, seed, wseed = item
    spec = spec_of(skey)
    p = Partial()
    want = 5 if tier == "thorough" else 4
    insts = stackable_instances(spec, seed, 10)
    env = spec.env(insts[0][1])
    pol = make(pkey, env, wseed)
    if len(insts) > want:
        # prefer instances whose solo episodes have DIFFERENT lengths, so that rows finish at different steps and the
        # early ones are padded inside a batch (otherwise post-finish behaviour is never exercised)
        kinds = {}
        for i, (iid, inst, td0) in enumerate(insts):
            try:
                a = decode(pol, env, [td0], flags, decode_type="greedy")["actions"][0].tolist()
                kinds.setdefault((len(a), a[0]), []).append(i)
            except Exception:  # noqa: BLE001
                kinds.setdefault((0, 0), []).append(i)
        # one instance per (episode length, first action) class, shortest and longest classes first
        keys = sorted(kinds)
        keys = [keys[0], keys[-1]] + keys[1:-1] if len(keys) > 2 else keys
        seen = []
        for k in keys:
            if kinds[k][0] not in seen:
                seen.append(kinds[k][0])
        for i in range(len(insts)):
            if i not in seen:
                seen.append(i)
        insts = [insts[i] for i in sorted(seen[:want])]
    n = len(insts)
    solo = {}
    for i, (iid, inst, td0) in enumerate(insts):
        try:
            out = decode(pol, env, [td0], flags, decode_type="greedy")
            solo[i] = (out["actions"][0].tolist(), float(out["reward"].reshape(1, -1)[0, 0]), float(out["log_likelihood"].reshape(1, -1)[0, 0]))
            p.add(evaluations=1, transitions=len(solo[i][0]), traces_validated_against_impl=1)
        except Exception as e:  # noqa: BLE001
            p.violation(sig(pkey, skey, f"crash:{type(e).__name__}", "batch_size==1"), dict(kind="c14", policy=pkey, spec=skey, wseed=wseed, instances=[dict(instance_id=iid, instance=inst)], arrangement=[0]), f"{pkey} x {skey}: greedy decoding of the single instance {iid} (batch size 1) crashes: {type(e).__name__}: {str(e)[:120]}")
            break
    if len(solo) < n:
        # fall back to the size-2 duplicate batch as the reference so that the remaining arrangements are still compared
        for i, (iid, inst, td0) in enumerate(insts):
            out = decode(pol, env, [td0, td0], flags, decode_type="greedy")
            solo[i] = (out["actions"][0].tolist(), float(out["reward"].reshape(2, -1)[0, 0]), float(out["log_likelihood"].reshape(2, -1)[0, 0]))
    arrangements = []
    for r in (2, 3):
        arrangements += [list(c) for c in itertools.permutations(range(n), r)]
    arrangements += [[i, i] for i in range(n)] + [[i, i, i] for i in range(n)]
    for arr in arrangements:
        try:
            out = decode(pol, env, [insts[i][2] for i in arr], flags, decode_type="greedy")
        except Exception as e:  # noqa: BLE001
            p.violation(sig(pkey, skey, f"crash:{type(e).__name__}", f"batch_size=={len(arr)}"), dict(kind="c14", policy=pkey, spec=skey, wseed=wseed, instances=[dict(instance_id=insts[i][0], instance=insts[i][1]) for i in range(n)], arrangement=arr), f"{pkey} x {skey}: greedy decoding of batch {[insts[i][0] for i in arr]} crashes: {type(e).__name__}: {str(e)[:120]}")
            continue
        B = len(arr)
        rew = out["reward"].reshape(B, -1)[:, 0].tolist()
        ll = out["log_likelihood"].reshape(B, -1)[:, 0].tolist()
        p.add(states=1, transitions=int(out["actions"].numel()), evaluations=B)
        p.case(f"{pkey}|{skey}|{arr}|{wseed}")
        for pos, i in enumerate(arr):
            sa, sr, sl = solo[i]
            acts = out["actions"][pos].tolist()
            # rows that finish earlier than their batch-mates are padded: compare the solo prefix
            a_cmp = acts[: len(sa)]
            rec = dict(kind="c14", policy=pkey, spec=skey, wseed=wseed, instances=[dict(instance_id=insts[j][0], instance=insts[j][1]) for j in range(n)], arrangement=arr, position=pos)
            if a_cmp != sa:
                t = next(k for k, (x, y) in enumerate(zip(a_cmp, sa)) if x != y)
                gap = None
                if flags.get("base"):
                    try:
                        gap = top2_gap_at(pol, env, insts[i][2], sa[:t])
                    except Exception:  # noqa: BLE001
                        gap = None
                if gap is not None and gap < 1e-5:
                    p.add(float_ties_skipped=1)
                    continue
                p.violation(sig(pkey, skey, "actions", f"batch_size=={B}"), rec, f"{pkey} x {skey}: instance {insts[i][0]} is solved as {sa} alone but as {acts} at position {pos} of batch {[insts[j][0] for j in arr]} (first difference at step {t}, solo top-2 gap {gap})")
                continue
            if abs(rew[pos] - sr) > TOL * (1 + abs(sr)):
                p.violation(sig(pkey, skey, "reward", f"batch_size=={B}"), rec, f"{pkey} x {skey}: instance {insts[i][0]}: reward {sr} alone vs {rew[pos]} at position {pos} of batch {[insts[j][0] for j in arr]}")
            # padding steps of a finished row have a single admissible action (probability one) in every bundled environment,
            # so the log-likelihood must not depend on how many of them a slower batch-mate imposes
            if abs(ll[pos] - sl) > 1e-4:
                p.violation(sig(pkey, skey, "log_likelihood", f"batch_size=={B}"), rec, f"{pkey} x {skey}: instance {insts[i][0]}: log-likelihood {sl} alone vs {ll[pos]} at position {pos} of batch {[insts[j][0] for j in arr]}")
            p.outcome(f"{pkey}|{skey}|{tuple(sa)}")
    # forced sequences: EVERY complete episode of an instance (incl. ones that finish early although more could be done,
    # which a given set of weights rarely decodes by itself), evaluated (actions supplied) once next to equally long
    # episodes of the same instance and once inside a batch whose other rows run longer, padded with the action a
    # finished row is offered.  Reward and log-likelihood must not depend on the padding.
    if flags.get("base") and not flags.get("no_forced"):
        for i in range(min(2, n)):
            iid, inst, td0 = insts[i]
            tree = E.explore(env, td0)
            if tree.capped or not tree.leaves or len(tree.leaves) > 400 or tree.crashes:
                continue
            lens = sorted({len(h) for h in tree.leaves})
            if len(lens) < 2:
                continue
            by_hist = {nd.hist: nd for nd in tree.nodes}
            ref_ll = {}
            try:
                for L in lens:
                    seqs = [h for h in tree.leaves if len(h) == L]
                    td = env.reset(torch.cat([td0] * len(seqs), 0))
                    E._set_bs(env, len(seqs))
                    with torch.no_grad(), Seam(tile_rows=True).active():
                        o = pol(td, env, phase="test", actions=torch.tensor([list(h) for h in seqs]), calc_reward=True)
                    for h, l_, r_ in zip(seqs, o["log_likelihood"].tolist(), o["reward"].tolist()):
                        ref_ll[h] = (l_, r_)
                T = lens[-1]
                seqs = list(tree.leaves)
                padded = []
                for h in seqs:
                    offered = [a for a, m in enumerate(by_hist[h].mask) if m]
                    if not offered:
                        padded = None
                        break
                    padded.append(list(h) + [offered[0]] * (T - len(h)))
                if padded is None:
                    continue
                td = env.reset(torch.cat([td0] * len(seqs), 0))
                E._set_bs(env, len(seqs))
                with torch.no_grad(), Seam(tile_rows=True).active():
                    o = pol(td, env, phase="test", actions=torch.tensor(padded), calc_reward=True)
            except Exception as e:  # noqa: BLE001
                p.note(f"{pkey} x {skey}: forced-sequence evaluation not runnable ({type(e).__name__}: {str(e)[:80]})")
                continue
            p.add(states=1, evaluations=len(seqs), transitions=len(seqs) * T)
            for h, l_, r_ in zip(seqs, o["log_likelihood"].tolist(), o["reward"].tolist()):
                sl, sr = ref_ll[h]
                if abs(l_ - sl) > 1e-4 or abs(r_ - sr) > TOL * (1 + abs(sr)):
                    p.violation(
                        sig(pkey, skey, "log_likelihood" if abs(l_ - sl) > 1e-4 else "reward", "forced_sequence_padded"),
                        dict(kind="c14_forced", policy=pkey, spec=skey, wseed=wseed, instance_id=iid, instance=inst, actions=list(h), pad_to=T),
                        f"{pkey} x {skey}: instance {iid}, forced episode {list(h)}: log-likelihood / reward {sl:.6f} / {sr} among equally long episodes, but {l_:.6f} / {r_} when padded to {T} steps by longer batch-mates",
                    )
                    break
    # multi-start factorisations
    if flags.get("base") and not flags.get("no_multistart"):
        ref = {}
        for B in (1, 2, 3):
            for S in (2, 3):
                arr = list(range(min(B, n)))
                if len(arr) < B:
                    continue
                try:
                    out = decode(pol, env, [insts[i][2] for i in arr], flags, decode_type="multistart_greedy", num_starts=S)
                except Exception as e:  # noqa: BLE001
                    p.note(f"{pkey} x {skey}: multistart_greedy B={B} S={S} not runnable ({type(e).__name__}: {str(e)[:60]}); start rules are C12's business")
                    continue
                p.add(states=1, evaluations=B * S)
                for r in range(B * S):
                    i, s = arr[r % B], r // B
                    acts = out["actions"][r].tolist()
                    val = (acts, float(out["reward"][r]))
                    key = (i, s, S)
                    if key in ref:
                        ra, rr = ref[key]
                        L = min(len(ra), len(acts))
                        if ra[:L] != acts[:L] or abs(rr - val[1]) > TOL * (1 + abs(rr)):
                            p.violation(sig(pkey, skey, "multistart_rollout", f"batch_size=={B}"), dict(kind="c14", policy=pkey, spec=skey, wseed=wseed, instances=[dict(instance_id=insts[j][0], instance=insts[j][1]) for j in range(n)], arrangement=arr, num_starts=S), f"{pkey} x {skey}: multi-start rollout (instance {insts[i][0]}, start #{s} of {S}) is {ra} / {rr} in a smaller batch but {acts} / {val[1]} with batch size {B}")
                    else:
                        ref[key] = val
    p.sample(dict(policy=pkey, env=skey, instances=[x[0] for x in insts], arrangements=len(arrangements), solo_solutions=[solo[i][0] for i in sorted(solo)]), cap=1)
    return p


def main(tier):
    rep = Report(PID, tier, rule="one case = one ordered batch arrangement (size 1-3, incl. duplicates) of stackable alphabet instances decoded greedily by one (policy, environment, weight seed), every row compared with its solo decode; distinct = distinct (policy, env, arrangement)")
    rep.assumptions = [
        "policies in eval() mode with tiny random weights; batch-norm uses running statistics there",
        "float ties (top-2 gap < 1e-5 at the first differing step) are skipped and counted; only checked for policies following the ConstructivePolicy decoder protocol",
        "MatNet's inference-time random embedding is answered row-keyed by the RNG seam",
        "DeepACO / NARGNN (torch_geometric missing), MDAM and MatNet x FFSP are not covered",
    ]
    seed = seed_from_env()
    only = os.environ.get("VERIF_ONLY")
    items = []
    for pkey, skey, flags in PAIRS + EXTRA_PAIRS:
        if only and only not in f"{pkey}|{skey}":
            continue
        for ws in (0,) if tier == "quick" else (0, 1):
            items.append((pkey, skey, flags, tier, seed, ws))
    rep.merge_all(pmap(unit, items))
    rep.extra["pairs"] = sorted({f"{i[0]}x{i[1]}" for i in items})
    return rep.finish()


def replay(rec):
    spec = spec_of(rec["spec"])
    if rec.get("kind") == "c14_forced":
        inst = rec["instance"]
        env = spec.env(inst)
        td0 = spec.td(inst)
        pol = make(rec["policy"], env, rec["wseed"])
        h = rec["actions"]
        tdf, masks, dones = E.run_solo(env, td0, h)
        offered = [a for a, m in enumerate(masks[-1]) if m]
        outs = []
        for acts in (h, h + [offered[0]] * (rec["pad_to"] - len(h))):
            td = env.reset(td0.clone())
            E._set_bs(env, 1)
            with torch.no_grad(), Seam(tile_rows=True).active():
                o = pol(td, env, phase="test", actions=torch.tensor([acts]), calc_reward=True)
            outs.append((float(o["log_likelihood"][0]), float(o["reward"][0])))
        diff = abs(outs[0][0] - outs[1][0]) > 1e-4 or abs(outs[0][1] - outs[1][1]) > TOL * (1 + abs(outs[0][1]))
        return diff, f"episode {h}: (log-likelihood, reward) {outs[0]} unpadded vs {outs[1]} padded to {rec['pad_to']} steps"
    flags = next(f for pk, sk, f in PAIRS + EXTRA_PAIRS if pk == rec["policy"] and sk == rec["spec"])
    insts = [(d["instance_id"], d["instance"], spec.td(d["instance"])) for d in rec["instances"]]
    env = spec.env(insts[0][1])
    pol = make(rec["policy"], env, rec["wseed"])
    arr = rec["arrangement"]
    try:
        out = decode(pol, env, [insts[i][2] for i in arr], flags, decode_type="greedy")
    except Exception as e:  # noqa: BLE001
        return True, f"decoding batch {arr} crashes: {type(e).__name__}: {e}"
    pos = rec.get("position", 0)
    i = arr[pos]
    try:
        s = decode(pol, env, [insts[i][2]], flags, decode_type="greedy")
    except Exception as e:  # noqa: BLE001
        return True, f"solo decode crashes: {type(e).__name__}: {e}"
    sa = s["actions"][0].tolist()
    a = out["actions"][pos].tolist()[: len(sa)]
    diff = a != sa or abs(float(s["reward"].reshape(-1)[0]) - float(out["reward"].reshape(len(arr), -1)[pos, 0])) > TOL
    return diff, f"solo {sa} reward {float(s['reward'].reshape(-1)[0])}; in batch {a} reward {float(out['reward'].reshape(len(arr), -1)[pos, 0])}"
