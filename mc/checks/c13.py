"""C13 — beam search returns feasible, correctly scored and distinct beams.

For the attention-model policy (tiny random weights) on fixed- and variable-length environments, for every small
instance, beam width 2..#start nodes, select_best on/off and batch sizes 1..3 (mixed instances):
the COMPLETE scored tree of the policy on the instance (every feasible sequence with its per-step log-probs, from
evaluate mode over the exhaustive env tree) is built first; a plain reference beam search over that tree
(keep the w highest cumulative scores among the feasible expansions of the kept beams at every step; finished
beams carry their score) must produce exactly the returned beams; every returned beam must be a path of the tree
(= feasible), its per-step log-probs must be the tree's (back-tracking consistent), beams with distinct forced
first moves must be distinct, and with best-selection the returned reward is the maximum over that instance's beams.
Steps at which the w-th and (w+1)-th candidate score tie (1e-6) make the reference ambiguous: such cases are skipped
and counted.
"""
from __future__ import annotations

import os

import torch

from .. import explore as E
from ..core import Partial, Report, pmap, seed_from_env
from ..policies import make
from ..registry import ALL_SPECS
from ..seam import Seam
from .c11 import evaluate_all

PID = "C13"
ENVS = ["tsp", "cvrp", "op:dist", "pctsp", "pdp", "sdvrp", "cvrptw", "spctsp"]


_PK = ["am"]


def sig(skey, observable, trigger):
    return dict(property=PID, env=skey.partition(":")[0], config=_PK[0], observable=observable, trigger=trigger)


def instances_for(spec, tier, seed):
    insts = spec.instances("quick", seed)
    hand = [x for x in insts if not x[0].startswith("gen-")]
    gen = [x for x in insts if x[0].startswith("gen-")]
    k = 4 if tier == "quick" else 10
    out = [hand[i] for i in E.pick_indices(len(hand), k)] + gen[: (1 if tier == "quick" else 3)]
    seen, res = set(), []
    for iid, inst in out:
        if iid not in seen:
            seen.add(iid)
            res.append((iid, inst))
    return res


def reference_beam(ev, starts, w):
    """ev: complete sequence -> (per-step logp, reward, entropy).  Returns (list of final stripped beams, tie flag)."""
    finals = set(ev)
    prefixes = {}
    for h, (steps, _, _) in ev.items():
        for t in range(1, len(h) + 1):
            prefixes.setdefault(h[:t], steps[t - 1])
    T = max(len(h) for h in finals)
    beams = [((s,), 0.0) for s in starts]
    tie = False
    for b, _ in beams:
        if b not in prefixes:
            return None, False  # an infeasible forced start: outside this property (C12)
    for t in range(1, T):
        cand = []
        for b, sc in beams:
            if b in finals:
                cand.append((sc, b))
                continue
            ext = sorted({h[: t + 1] for h in finals if h[:t] == b and len(h) > t})
            for e in ext:
                cand.append((sc + prefixes[e], e))
        cand.sort(key=lambda x: -x[0])
        if len(cand) < w:
            return "too_few", False
        if len(cand) > w and abs(cand[w - 1][0] - cand[w][0]) < 1e-6:
            tie = True
        beams = [(e, sc) for sc, e in cand[:w]]
    return beams, tie


def strip(acts, finals):
    a = tuple(acts)
    for L in range(len(a), 0, -1):
        if a[:L] in finals:
            return a[:L]
    return None


def unit(item):
    pkey, skey, tier, seed, wseed = item
    _PK[0] = pkey
    spec = ALL_SPECS[skey]
    p = Partial()
    insts = instances_for(spec, tier, seed)
    pol = make(pkey, spec.env(insts[0][1]), wseed)
    trees = {}
    envs = {}
    for iid, inst in insts:
        td0 = spec.td(inst)
        env = spec.env(inst)
        envs[iid] = env
        tree = E.explore(env, td0, keep_nodes=False)
        if tree.capped or len(tree.leaves) > 5000:
            continue
        ev = evaluate_all(pol, env, td0, tree.leaves)
        trees[iid] = (inst, td0, ev)
        p.add(states=tree.states, transitions=tree.transitions)
    ids = list(trees)
    if not ids:
        return p
    # batches: every instance alone, then pairs / triples of different instances (same shapes only)
    batches = [[i] for i in ids]
    shapes = {i: tuple(v.shape for v in trees[i][1].values()) for i in ids}
    for i in ids:
        for j in ids:
            if i != j and shapes[i] == shapes[j]:
                batches.append([i, j])
    if len(ids) >= 3 and len({shapes[i] for i in ids[:3]}) == 1:
        batches.append(ids[:3])
    if tier == "quick":
        batches = batches[: len(ids) + 3]
    for batch in batches:
        B = len(batch)
        env = envs[batch[0]]
        tds = torch.cat([trees[i][1] for i in batch], 0)
        td_r = env.reset(tds.clone())
        nstart = int(env.get_num_starts(td_r))
        # PDP documents that only pickups are forced for ANY number of starts (the rule wraps around): widths beyond the
        # number of pickups, up to the number of customers, are run as well and judged for feasibility of every beam
        extra_w = list(range(max(2, nstart) + 1, tds["locs"].shape[1] + 1)) if skey.partition(":")[0] == "pdp" and skey == "pdp" else []
        for w in list(range(2, max(2, nstart) + 1)) + extra_w:
            for select_best, script in ((False, []), (True, []), (False, [2] * B), (True, [2] * B)):
                td_r = env.reset(tds.clone())
                seam = Seam(script)
                try:
                    with torch.no_grad(), seam.active():
                        E._set_bs(env, B * w)
                        out = pol(td_r, env, decode_type="beam_search", beam_width=w, select_best=select_best, return_sum_log_likelihood=False)
                except AssertionError as e:
                    if "infeasible action selected" in str(e):
                        # fewer than w feasible expansions exist: the library refuses instead of returning an infeasible beam
                        p.add(refused_too_few_candidates=1)
                        continue
                    raise
                except Exception:
                    if script:
                        continue  # the alternative start-node script does not apply (no random start selection here)
                    raise
                if script and not seam.points:
                    continue  # start nodes are not drawn at random in this environment: same run as the default script
                with Seam(script).active():
                    starts_all = env.select_start_nodes(env.reset(tds.clone()), w).tolist()
                p.add(evaluations=1, transitions=int(out["actions"].numel()))
                for r, iid in enumerate(batch):
                    inst, td0, ev = trees[iid]
                    finals = set(ev)
                    starts = [starts_all[r + i * B] for i in range(w)]
                    ref, tie = reference_beam(ev, starts, w) if w <= max(2, nstart) else ("feasibility_only", False)
                    case = dict(kind="beam", policy=pkey, spec=skey, wseed=wseed, batch=[dict(instance_id=i, instance=trees[i][0]) for i in batch], row=r, beam_width=w, select_best=select_best)
                    if ref is None:
                        p.add(infeasible_forced_starts=1)
                        # with at least w feasible first moves available, a beam forced onto an infeasible first move is an
                        # infeasible returned beam (with fewer, the start rule has nothing to choose from: not judged)
                        firsts_ok = {h[0] for h in finals} - {0}
                        bad = [s_ for s_ in starts if (s_,) not in {h[:1] for h in finals}]
                        if len(firsts_ok) >= w and bad:
                            p.violation(sig(skey, "infeasible_beam", f"B={B}|forced_start"), case, f"{pkey} x {skey} {iid}: width {w}: beams are forced to start at {starts}; {bad} is not a feasible first move although {sorted(firsts_ok)} are available")
                        continue
                    if ref == "too_few":
                        p.add(too_few_candidates=1)
                        continue
                    if ref == "feasibility_only":
                        rows_ = [r] if select_best else [r + i * B for i in range(w)]
                        for row in rows_:
                            acts = out["actions"][row].tolist()
                            p.add(traces_validated_against_impl=1)
                            if strip(acts, finals) is None:
                                p.violation(sig(skey, "infeasible_beam", f"B={B}|width>starts"), case, f"{pkey} x {skey} {iid}: width {w} (more than the {nstart} pickups): returned beam {acts} is not a feasible complete sequence (forced starts {starts})")
                                break
                        p.case(f"{skey}|{iid}|{w}|{select_best}|{B}|{wseed}|feasibility")
                        continue
                    p.case(f"{skey}|{iid}|{w}|{select_best}|{B}|{wseed}")
                    ref_set = sorted(b for b, _ in ref)
                    if not select_best:
                        got = []
                        for i in range(w):
                            row = r + i * B
                            acts = out["actions"][row].tolist()
                            s = strip(acts, finals)
                            if s is None:
                                p.violation(sig(skey, "infeasible_beam", f"B={B}"), case, f"{pkey} x {skey} {iid}: beam {i} of width {w} returned {acts}, not a feasible complete sequence")
                                continue
                            got.append(s)
                            p.add(traces_validated_against_impl=1)
                            lps = out["log_likelihood"][row].tolist()
                            want = [0.0] + ev[s][0][1:]
                            if any(abs(a - b) > 2e-4 for a, b in zip(lps[: len(s)], want)):
                                p.violation(sig(skey, "beam_logprobs", f"B={B}"), case, f"{pkey} x {skey} {iid}: beam {list(s)} carries per-step log-probs {[round(x, 4) for x in lps[:len(s)]]}, the policy assigns {[round(x, 4) for x in want]} along this sequence")
                        if len(got) == w:
                            firsts = [g[0] for g in got]
                            if len(set(starts)) == len(starts) and len(set(got)) != len(got):
                                p.violation(sig(skey, "duplicate_beams", f"B={B}"), case, f"{pkey} x {skey} {iid}: beams {got} are not pairwise distinct although their forced first moves {starts} are")
                            if tie:
                                p.add(ties_skipped=1)
                            elif sorted(got) != ref_set:
                                p.violation(sig(skey, "kept_beams", f"B={B}"), case, f"{pkey} x {skey} {iid}: width {w}: returned beams {sorted(got)} differ from the reference beam search {ref_set}")
                            p.outcome(f"{skey}|{sorted(got) == ref_set}")
                    else:
                        acts = out["actions"][r].tolist()
                        s = strip(acts, finals)
                        if s is None:
                            p.violation(sig(skey, "infeasible_beam", f"B={B}|select_best"), case, f"{pkey} x {skey} {iid}: best beam {acts} is not a feasible complete sequence")
                            continue
                        if tie:
                            p.add(ties_skipped=1)
                            continue
                        best = max(ev[b][1] for b in ref_set)
                        rew = float(out["reward"][r])
                        if abs(rew - best) > 1e-5 * (1 + abs(best)) or abs(ev[s][1] - rew) > 1e-5 * (1 + abs(rew)):
                            p.violation(sig(skey, "best_selection", f"B={B}"), case, f"{pkey} x {skey} {iid}: width {w} with best-selection returned {list(s)} with reward {rew}; maximum over the instance's beams {ref_set} is {best}, reward of the returned actions is {ev[s][1]}")
        p.sample(dict(env=skey, batch=batch, num_starts=nstart, sequences_in_tree=[len(trees[i][2]) for i in batch]), cap=1)
    return p


def main(tier):
    rep = Report(PID, tier, rule="one case = one (environment, instance, beam width, select_best, batch layout, weight seed); the complete scored tree of the instance is the reference; distinct = distinct such configurations with a feasible set of forced starts")
    rep.assumptions = [
        "attention-model policy with tiny random weights (1 seed quick / 2 thorough); instances of 3-5 nodes so that the complete scored tree can be built",
        "ties within 1e-6 at the selection boundary are skipped and counted (torch.topk may keep either)",
        "beam widths for which fewer than w feasible expansions exist make the library raise its own 'infeasible action selected' assertion: counted, not judged",
    ]
    seed = seed_from_env()
    only = os.environ.get("VERIF_ONLY")
    items = [("am", k, tier, seed, ws) for k in ENVS if not only or only in k for ws in ((0,) if tier == "quick" else (0, 1))]
    # a weight-free heat-map policy reaches environments whose reward is part of the episode state (mTSP minmax)
    items += [("heatmap", k, tier, seed, 0) for k in ("mtsp:minmax", "tsp", "cvrp") if not only or only in k]
    rep.merge_all(pmap(unit, items))
    return rep.finish()


def replay(rec):
    spec = ALL_SPECS[rec["spec"]]
    insts = [(b["instance_id"], b["instance"]) for b in rec["batch"]]
    import mc.checks.c13 as me

    orig = me.instances_for
    me.instances_for = lambda s, t, sd: insts
    try:
        p = unit((rec.get("policy", "am"), rec["spec"], "quick", 0, rec["wseed"]))
    finally:
        me.instances_for = orig
    return bool(p.violations), "; ".join(v["msg"] for v in p.violations[:3]) or "beams agree with the reference"
