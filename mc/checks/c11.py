"""C11 — returned log-likelihoods are those of the returned actions (evaluate round trip).

For each bundled constructive policy x supported environment (tiny random weights, eval and train mode) and
each small alphabet instance, the COMPLETE set of feasible action sequences (leaves of the exhaustive E1 tree) is
(1) evaluated with `policy(td, env, actions=seq)`: per-step log-probs, reward, entropy;
(2) compared with a reference recomputed by the harness from the decoder's raw logits and the environment mask
    at every state of the path (independent masked log-softmax in float64) -- for policies that follow the
    ConstructivePolicy decoder protocol;
(3) summed: sum over ALL complete sequences of exp(log_likelihood) must be 1 (global normalisation oracle: any
    mis-aligned gather, unmasked distribution or off-by-one step breaks it);
(4) reproduced by the decoders: `decode_type='sampling'` under the RNG seam (E3: every positive-probability
    answer of every multinomial => the full trajectory tree the sampler can emit), greedy, multistart_greedy /
    multistart_sampling (forced first move contributes zero): actions, log-likelihood, reward and entropy must be
    those of (1) for the very same sequence, so the PPO ratio exp(new_ll - old_ll) is 1.
"""
from __future__ import annotations

import math
import os

import torch

from .. import explore as E
from ..core import Partial, Report, pmap, seed_from_env
from ..policies import PAIRS, make
from ..registry import ALL_SPECS
from ..seam import ExplorationCapped, Seam, explore

PID = "C11"
TOL = 2e-4


def sig(pkey, skey, observable, trigger):
    return dict(property=PID, env=skey.partition(":")[0], config=f"{pkey}|{skey.partition(':')[2]}", observable=observable, trigger=trigger)


def pick_instances(spec, tier, seed):
    insts = spec.instances(tier if tier == "quick" else "quick", seed)
    # smallest trees first: one hand-built and one seeded instance
    hand = [x for x in insts if not x[0].startswith("gen-")]
    gen = [x for x in insts if x[0].startswith("gen-")]
    out = []
    if hand:
        out.append(hand[len(hand) // 2])
    if gen:
        out.append(gen[0])
    if tier == "thorough" and len(hand) > 2:
        out.append(hand[-1])
    return out


def evaluate_all(pol, env, td0, leaves, eval_kw="actions", phase="test"):
    res = {}
    by_len = {}
    for h in leaves:
        by_len.setdefault(len(h), []).append(h)
    for L, seqs in by_len.items():
        for lo in range(0, len(seqs), 512):
            chunk = seqs[lo : lo + 512]
            td = env.reset(torch.cat([td0] * len(chunk), 0))
            acts = torch.tensor([list(h) for h in chunk], dtype=torch.long).reshape(len(chunk), L)
            E._set_bs(env, len(chunk))
            with torch.no_grad(), Seam(tile_rows=True).active():
                kw = {eval_kw: acts}
                try:
                    out = pol(td, env, phase=phase, return_sum_log_likelihood=False, return_entropy=True, calc_reward=True, **kw)
                except KeyError:
                    out = pol(td, env, phase=phase, return_sum_log_likelihood=False, calc_reward=True, **kw)
            if "entropy" not in out:
                out["entropy"] = torch.full((len(chunk),), float("nan"))
            ll = out["log_likelihood"].double()
            for i, h in enumerate(chunk):
                steps = ll[i].tolist()
                res[h] = (steps if isinstance(steps, list) else [steps], float(out["reward"][i]), float(out["entropy"][i]))
    return res


def reference_steps(pol, env, td0, h, ents=None):
    """per-step log-prob of the taken action from the decoder's raw logits and mask (ConstructivePolicy protocol)"""
    td = env.reset(td0.clone())
    with torch.no_grad(), Seam(tile_rows=True).active():
        hidden, _ = pol.encoder(td)
        td, env_, hidden = pol.decoder.pre_decoder_hook(td, env, hidden, 0)
        out = []
        for a in h:
            logits, mask = pol.decoder(td, hidden, 0)
            lg = logits.double().reshape(1, -1)
            if pol.tanh_clipping > 0:
                lg = torch.tanh(lg) * pol.tanh_clipping
            lg = lg / pol.temperature
            lg = lg.masked_fill(~mask.reshape(1, -1), float("-inf"))
            lp = lg - torch.logsumexp(lg, dim=-1, keepdim=True)
            out.append(float(lp[0, a]))
            if ents is not None:
                pr = lp.exp()
                ents.append(float(-(pr * lp.masked_fill(pr == 0, 0.0)).sum()))
            td.set("action", torch.tensor([a]))
            E._set_bs(env, 1)
            td = env.step(td)["next"]
    return out


def unit(item):
    pkey, skey, flags, tier, seed, wseed, train = item[:7]
    temp = item[7] if len(item) > 7 else 1.0
    spec = ALL_SPECS[skey]
    p = Partial()
    mode = ("train" if train else "eval") + ("" if temp == 1.0 else f"|T={temp}")
    for iid, inst in pick_instances(spec, tier, seed):
        env = spec.env(inst)
        td0 = spec.td(inst)
        tree = E.explore(env, td0, keep_nodes=False)
        if tree.capped or not tree.leaves or len(tree.leaves) > (3000 if tier == "quick" else 20000):
            p.add(skipped_large=1)
            continue
        pol = make(pkey, env, wseed, train)
        if temp != 1.0:
            pol.temperature = temp  # the policy's softmax temperature (constructor argument of every constructive policy)
        B1 = 2 if flags.get("no_batch1") else 1
        leaves = tree.leaves
        p.add(states=tree.states, transitions=tree.transitions)
        try:
            phase = "train" if train else "test"
            ev = evaluate_all(pol, env, td0, leaves, flags.get("eval_kw", "actions"), phase)
        except Exception as e:  # noqa: BLE001
            p.violation(sig(pkey, skey, f"crash:{type(e).__name__}", f"evaluate|{mode}"), dict(kind="c11", policy=pkey, spec=skey, instance_id=iid, instance=inst, wseed=wseed, train=train, temp=temp, what="evaluate"), f"{pkey} x {skey} {iid} ({mode}): evaluate mode crashed: {type(e).__name__}: {str(e)[:120]}")
            continue
        p.add(evaluations=len(leaves), distinct_count=len(leaves))
        # (3) global normalisation
        if not flags.get("multipath") and not flags.get("polynet"):
            tot = sum(math.exp(sum(v[0])) for v in ev.values())
            p.outcome(f"{pkey}|{skey}|norm{round(tot, 3)}")
            if abs(tot - 1.0) > 1e-3:
                p.violation(sig(pkey, skey, "normalisation", f"sum_over_all_sequences|{mode}"), dict(kind="c11", policy=pkey, spec=skey, instance_id=iid, instance=inst, wseed=wseed, train=train, temp=temp, what="normalisation"), f"{pkey} x {skey} {iid} ({mode}): sum over all {len(ev)} complete sequences of exp(log_likelihood) = {tot:.6f}, expected 1")
        # (2) reference per-step log-probs
        if flags.get("base") and not train:
            for h in [leaves[i] for i in E.pick_indices(len(leaves), 12 if tier == "quick" else 60)]:
                try:
                    ref = reference_steps(pol, env, td0, h)
                except Exception as e:  # noqa: BLE001
                    p.note(f"{pkey} x {skey}: reference stepping not possible ({type(e).__name__}: {str(e)[:80]})")
                    break
                p.add(traces_validated_against_impl=1)
                got = ev[h][0]
                if len(got) != len(ref) or any(abs(a - b) > TOL for a, b in zip(got, ref)):
                    p.violation(sig(pkey, skey, "per_step_logprob", f"evaluate|{mode}"), dict(kind="c11", policy=pkey, spec=skey, instance_id=iid, instance=inst, wseed=wseed, train=train, temp=temp, what="reference", actions=list(h)), f"{pkey} x {skey} {iid}: per-step log-probs of {list(h)} from evaluate {[round(x, 4) for x in got]} differ from the masked log-softmax of the decoder logits {[round(x, 4) for x in ref]}")
        # (4) decoders
        def check_rollout(kind, acts, ll, rew, ent, skip_first=0):
            h = tuple(acts)
            if h not in ev:
                p.violation(sig(pkey, skey, "actions", f"{kind}|{mode}"), dict(kind="c11", policy=pkey, spec=skey, instance_id=iid, instance=inst, wseed=wseed, train=train, temp=temp, what=kind, actions=list(h)), f"{pkey} x {skey} {iid}: {kind} decoding returned {list(h)}, which is not a complete feasible sequence")
                return
            steps, r, en = ev[h]
            want = sum(steps[skip_first:])
            if abs(ll - want) > TOL:
                p.violation(sig(pkey, skey, "log_likelihood", f"{kind}|{mode}"), dict(kind="c11", policy=pkey, spec=skey, instance_id=iid, instance=inst, wseed=wseed, train=train, temp=temp, what=kind, actions=list(h)), f"{pkey} x {skey} {iid} ({mode}): {kind} returned log-likelihood {ll:.6f} for {list(h)}, evaluate gives {want:.6f} (PPO ratio {math.exp(want - ll):.6f})")
            if abs(rew - r) > 1e-5 * (1 + abs(r)):
                p.violation(sig(pkey, skey, "reward", f"{kind}|{mode}"), dict(kind="c11", policy=pkey, spec=skey, instance_id=iid, instance=inst, wseed=wseed, train=train, temp=temp, what=kind, actions=list(h)), f"{pkey} x {skey} {iid}: {kind} reward {rew} vs evaluate {r} for {list(h)}")
            if ent is not None and en == en and ent == ent and skip_first == 0 and abs(ent - en) > 1e-4 * (1 + abs(en)):
                p.violation(sig(pkey, skey, "entropy", f"{kind}|{mode}"), dict(kind="c11", policy=pkey, spec=skey, instance_id=iid, instance=inst, wseed=wseed, train=train, temp=temp, what=kind, actions=list(h)), f"{pkey} x {skey} {iid}: {kind} entropy {ent} vs evaluate {en} for {list(h)}")

        if flags.get("multipath") or flags.get("polynet") or flags.get("no_roundtrip"):
            p.note(f"{pkey}: per-path / per-strategy outputs; only evaluate-mode consistency is checked")
            continue

        def run(seam):
            td = env.reset(torch.cat([td0] * B1, 0))
            E._set_bs(env, B1)
            with torch.no_grad(), seam.active():
                try:
                    o = pol(td, env, phase=phase, decode_type="sampling", return_entropy=True)
                except KeyError:
                    o = pol(td, env, phase=phase, decode_type="sampling")
                    o["entropy"] = torch.full((B1,), float("nan"))
            if "entropy" not in o:
                o["entropy"] = torch.full((B1,), float("nan"))
            return o["actions"][0].tolist(), float(o["log_likelihood"][0]), float(o["reward"][0]), float(o["entropy"][0])

        sampled = set()
        try:
            for ch, (acts, ll, rew, ent), seam in explore(run, max_dev=None, limit=4000 if tier == "quick" else 30000, float_patterns=False, tie_rows=(B1 > 1), tile_rows=True):
                p.add(states=1, transitions=len(ch), evaluations=1)
                sampled.add(tuple(acts))
                check_rollout("sampling", acts, ll, rew, ent)
            missing = set(ev) - sampled
            if missing:
                p.violation(sig(pkey, skey, "support", f"sampling|{mode}"), dict(kind="c11", policy=pkey, spec=skey, instance_id=iid, instance=inst, wseed=wseed, train=train, temp=temp, what="sampling", actions=list(sorted(missing)[0])), f"{pkey} x {skey} {iid}: sampler can never emit the feasible sequence {list(sorted(missing)[0])} ({len(missing)} of {len(ev)} unreachable)")
        except ExplorationCapped:
            p.add(caps_hit=1)
        # greedy
        td = env.reset(torch.cat([td0] * B1, 0))
        E._set_bs(env, B1)
        with torch.no_grad(), Seam(tile_rows=True).active():
            try:
                o = pol(td, env, phase=phase, decode_type="greedy", return_entropy=True)
            except KeyError:
                o = pol(td, env, phase=phase, decode_type="greedy")
                o["entropy"] = torch.full((B1,), float("nan"))
        if "entropy" not in o:
            o["entropy"] = torch.full((B1,), float("nan"))
        check_rollout("greedy", o["actions"][0].tolist(), float(o["log_likelihood"][0]), float(o["reward"][0]), float(o["entropy"][0]))
        # multistart (forced first move contributes zero)
        # ... decoded next to a DIFFERENT instance of the same shape where one exists (the replicated encoder cache must
        # stay aligned with the replicated state), otherwise next to copies of itself
        mates = [td0] * B1
        if B1 == 1 and not train:
            shp = {k_: tuple(v.shape[1:]) for k_, v in td0.items()}
            for jid, jinst in spec.instances(tier, seed):
                if jid == iid:
                    continue
                tdj = spec.td(jinst)
                if {k_: tuple(v.shape[1:]) for k_, v in tdj.items()} == shp and E.group_sig(tdj) == E.group_sig(td0):
                    mates = [td0, tdj]
                    break
        Bm = len(mates)
        for k in (2, 3) if flags.get("base") else ():
            # with and without the entropy request: the decoding strategy stores per-action or full per-step log-probs
            for dt, want_ent in (("multistart_greedy", False), ("multistart_sampling", False), ("multistart_greedy", True), ("multistart_sampling", True)):
                td = env.reset(torch.cat(mates, 0))
                try:
                    with torch.no_grad(), Seam(tile_rows=True).active():
                        E._set_bs(env, Bm * k)
                        o = pol(td, env, phase=phase, decode_type=dt, num_starts=k, **(dict(return_entropy=True) if want_ent else {}))
                except Exception as e:  # noqa: BLE001
                    p.note(f"{pkey} x {skey}: {dt} with num_starts={k} not runnable here ({type(e).__name__}: {str(e)[:80]}) - start-node rules are C12's business")
                    continue
                first_ok = {h[0] for h in ev}
                for r in range(0, Bm * k, Bm):
                    acts = o["actions"][r].tolist()
                    if acts[0] not in first_ok:
                        p.add(infeasible_forced_starts=1)  # start-node feasibility is C12's business
                        continue
                    # trailing padding of rows that finished earlier than their siblings
                    while tuple(acts) not in ev and len(acts) > 1:
                        acts = acts[:-1]
                    if tuple(acts) in ev and len(acts) < o["actions"].shape[1]:
                        p.add(padded_rollouts=1)
                        continue  # padded rows carry the log-probs of their padding steps; compared in C12/C04 instead
                    check_rollout(f"{dt}", acts, float(o["log_likelihood"][r]), float(o["reward"][r]), None, skip_first=1)
                    p.add(evaluations=1)
                    # entropy of a multi-start rollout: the forced first move contributes zero, every later step the entropy
                    # of its masked step distribution (re-derived from the decoder's raw logits)
                    if "entropy" in o.keys() and not train and tuple(acts) in ev:
                        ents = []
                        try:
                            reference_steps(pol, env, td0, tuple(acts), ents)
                        except Exception:  # noqa: BLE001
                            ents = None
                        if ents:
                            want_e = sum(ents[1:])
                            got_e = float(o["entropy"][r])
                            if abs(got_e - want_e) > 1e-3 * (1 + abs(want_e)):
                                p.violation(sig(pkey, skey, "entropy", f"{dt}|{mode}"), dict(kind="c11", policy=pkey, spec=skey, instance_id=iid, instance=inst, wseed=wseed, train=train, temp=temp, what=dt, actions=list(acts)), f"{pkey} x {skey} {iid} ({mode}): {dt} returned entropy {got_e:.6f} for {list(acts)}; the step entropies after the forced first move sum to {want_e:.6f}")
        p.sample(dict(policy=pkey, env=skey, instance=iid, mode=mode, complete_sequences=len(ev), sampled_sequences=len(sampled)), cap=1)
    return p


def unit_stepwise(item):
    """Step-wise PPO policy of the scheduling models (L2DPolicy4PPO): `act` records the log-probability of the action it
    samples in td['logprobs'], `evaluate` recomputes log-probability and entropy for the stored (state, action) pairs.
    In EVERY reachable state of small instances and for EVERY answer of the sampler: the two log-probabilities agree
    (the PPO ratio starts at exactly one), the recorded probabilities of all samplable actions sum to one, only
    mask-admitted actions are sampled, and evaluate's entropy is the entropy of the distribution act samples from."""
    _, skey, tier, seed, temp = item
    from rl4co.models.zoo.l2d.policy import L2DPolicy4PPO

    spec = ALL_SPECS[skey]
    p = Partial()
    cfg = f"l2d4ppo|T={temp}"
    for iid, inst in pick_instances(spec, tier, seed):
        env = spec.env(inst)
        td0 = spec.td(inst)
        tree = E.explore(env, td0, keep_nodes=True)
        if tree.capped:
            p.add(skipped_large=1)
            continue
        torch.manual_seed(777)
        pol = L2DPolicy4PPO(env_name=env.name, embed_dim=16, num_encoder_layers=1, temperature=temp).eval()
        nodes = [nd for nd in tree.nodes if not nd.done]
        nodes = [nodes[i] for i in E.pick_indices(len(nodes), 40 if tier == "quick" else 400)]
        for nd in nodes:
            td_state, masks, dones = E.run_solo(env, td0, nd.hist) if nd.hist else (env.reset(td0.clone()), None, None)
            rec = dict(kind="c11_stepwise", spec=skey, instance_id=iid, instance=inst, temp=temp, actions=list(nd.hist))
            seen = {}

            def run(seam):
                with torch.no_grad(), seam.active():
                    t = pol.act(td_state.clone(), env, phase="train")
                return int(t["action"][0]), float(t["logprobs"][0])

            try:
                for ch, (a, lp), seam in explore(run, max_dev=None, limit=200, float_patterns=False):
                    seen[a] = lp
                    p.add(states=1, transitions=len(ch), evaluations=1)
            except ExplorationCapped:
                p.add(caps_hit=1)
                continue
            offered = {i for i, m in enumerate(nd.mask) if m}
            if not set(seen) <= offered:
                p.violation(sig("l2d4ppo", skey, "actions", f"act|{cfg}"), rec, f"L2DPolicy4PPO.act on {skey} {iid} after {list(nd.hist)} samples {sorted(set(seen) - offered)}, which the mask does not admit")
                continue
            tot = sum(math.exp(v) for v in seen.values())
            if abs(tot - 1.0) > 1e-4:
                p.violation(sig("l2d4ppo", skey, "normalisation", f"act|{cfg}"), rec, f"L2DPolicy4PPO.act on {skey} {iid} after {list(nd.hist)}: recorded probabilities of all samplable actions {sorted(seen)} sum to {tot:.6f}")
            ent_ref = -sum(math.exp(v) * v for v in seen.values())
            for a, lp in sorted(seen.items()):
                t = td_state.clone()
                t.set("action", torch.tensor([a]))
                with torch.no_grad(), Seam().active():
                    lp_e, _, ent_e = pol.evaluate(t)
                p.add(traces_validated_against_impl=1, distinct_count=1)
                if abs(float(lp_e.reshape(-1)[0]) - lp) > TOL:
                    p.violation(sig("l2d4ppo", skey, "log_likelihood", f"act_vs_evaluate|{cfg}"), rec, f"L2DPolicy4PPO on {skey} {iid} after {list(nd.hist)}: act records log-prob {lp:.6f} for action {a}, evaluate gives {float(lp_e.reshape(-1)[0]):.6f} (PPO ratio {math.exp(float(lp_e.reshape(-1)[0]) - lp):.6f})")
                    break
                if abs(float(ent_e.reshape(-1)[0]) - ent_ref) > 1e-4 * (1 + abs(ent_ref)):
                    p.violation(sig("l2d4ppo", skey, "entropy", f"act_vs_evaluate|{cfg}"), rec, f"L2DPolicy4PPO on {skey} {iid} after {list(nd.hist)}: evaluate reports entropy {float(ent_e.reshape(-1)[0]):.6f}, the distribution act samples from has {ent_ref:.6f}")
                    break
            p.outcome(f"l2d4ppo|{skey}|{len(seen)}")
        p.sample(dict(policy="l2d4ppo", env=skey, instance=iid, temperature=temp, states=len(nodes)), cap=1)
    return p


def unit_rounds(item):
    """Step-wise PPO trainer over consecutive batches: at the first evaluation of every stored mini-batch in EVERY round
    (before the round's first optimiser step) the recomputed log-probabilities must equal the ones recorded at acting time,
    i.e. the PPO probability ratio starts at exactly one in every round, not only in the first."""
    from ..stepwise import run_stepwise

    _, env_name, temp, tier, seed = item
    p = Partial()
    rec = dict(kind="c11_rounds", env_name=env_name, temp=temp)
    try:
        obs = run_stepwise(env_name, reward_scale=None, rounds=3 if tier == "quick" else 5, seed=seed, temperature=temp)
    except Exception as e:  # noqa: BLE001
        p.violation(sig("l2d4ppo", env_name, f"crash:{type(e).__name__}", "training_round"), rec, f"StepwisePPO({env_name}): a training round raised {type(e).__name__}: {str(e)[:120]}")
        return p
    for k, d in enumerate(obs["rounds"]):
        p.add(states=1, transitions=1, evaluations=1, distinct_count=1, traces_validated_against_impl=1)
        p.outcome(f"rounds|{env_name}|{k}|{'one' if d is not None and d <= 1e-5 else 'off'}")
        if d is None or d > 1e-5:
            p.violation(sig("l2d4ppo", env_name, "ratio_not_one", "first_round" if k == 0 else "later_round"), dict(rec, round=k), f"StepwisePPO({env_name}, T={temp}) round {k}: before the round's first optimiser step the stored and recomputed log-probabilities differ by {d} (the probability ratio does not start at one)")
            break
    p.sample(dict(policy="l2d4ppo trainer rounds", env=env_name, rounds=len(obs["rounds"])), cap=1)
    return p


def dispatch(item):
    if item[0] == "rounds":
        return unit_rounds(item)
    return unit_stepwise(item) if item[0] == "stepwise" else unit(item)


def main(tier):
    rep = Report(PID, tier, rule="one case = one complete feasible action sequence of one instance under one (policy, environment, weight seed, mode): evaluated, re-derived from raw logits, and re-produced by the sampling/greedy/multistart decoders under every sampler answer; distinct = distinct (policy, env, instance, sequence)")
    rep.assumptions = [
        "policies have tiny random weights (embed 16, 1 layer, 2 heads; 2 weight seeds in thorough); the property is weight independent",
        "train mode compares passes over the identical batch only (batch norm couples rows by design)",
        "DeepACO / NARGNN need torch_geometric (not installed); MatNet x FFSP cannot be constructed at this commit (decoder kwarg error); MDAM / PolyNet: evaluate-mode consistency only",
        "instances with more than 3000 (quick) complete sequences are skipped and counted",
    ]
    seed = seed_from_env()
    only = os.environ.get("VERIF_ONLY")
    items = []
    for pkey, skey, flags in PAIRS:
        if only and only not in f"{pkey}|{skey}":
            continue
        for wseed in (0,) if tier == "quick" else (0, 1):
            items.append((pkey, skey, flags, tier, seed, wseed, False))
        if pkey in ("am", "symnco", "ham", "l2d") and (tier == "thorough" or skey in ("tsp", "cvrp", "pdp", "fjsp:mask")):
            items.append((pkey, skey, flags, tier, seed, 0, True))
        if flags.get("base") and (tier == "thorough" or skey in ("tsp", "cvrp", "op:dist", "pdp")):
            items.append((pkey, skey, flags, tier, seed, 0, False, 2.0))
            if tier == "thorough":
                items.append((pkey, skey, flags, tier, seed, 1, False, 0.5))
    rep.extra["pairs"] = sorted({f"{i[0]}x{i[1]}" for i in items})
    for skey in ("fjsp:mask", "jssp:mask", "fjsp:wait"):
        for temp in (1.0, 2.0) if tier == "quick" else (1.0, 2.0, 0.5):
            if not only or only in f"l2d4ppo|{skey}":
                items.append(("stepwise", skey, tier, seed, temp))
    for env_name in ("fjsp", "jssp"):
        if not only or only in f"l2d4ppo|rounds|{env_name}":
            items.append(("rounds", env_name, 1.0, tier, seed))
    rep.merge_all(pmap(dispatch, items))
    rep.extra["pairs"] += [f"l2d4ppo(act/evaluate)x{k}" for k in ("fjsp:mask", "jssp:mask", "fjsp:wait")]
    return rep.finish()


def replay(rec):
    spec = ALL_SPECS[rec["spec"]]
    if rec.get("kind") == "c11_rounds":
        p = unit_rounds(("rounds", rec["env_name"], rec["temp"], "quick", 0))
        return bool(p.violations), "; ".join(v["msg"] for v in p.violations[:2]) or "the ratio starts at one in every round"
    if rec.get("kind") == "c11_stepwise":
        import mc.checks.c11 as me

        orig = me.pick_instances
        me.pick_instances = lambda spec_, tier, seed: [(rec["instance_id"], rec["instance"])]
        try:
            p = unit_stepwise(("stepwise", rec["spec"], "thorough", 0, rec["temp"]))
        finally:
            me.pick_instances = orig
        return bool(p.violations), "; ".join(v["msg"] for v in p.violations[:3]) or "act and evaluate agree"
    spec._inst_cache[("replay", 0)] = [(rec["instance_id"], rec["instance"])]
    flags = next(f for pk, sk, f in PAIRS if pk == rec["policy"] and sk == rec["spec"])
    import mc.checks.c11 as me

    orig = me.pick_instances
    me.pick_instances = lambda spec_, tier, seed: [(rec["instance_id"], rec["instance"])]
    try:
        p = unit((rec["policy"], rec["spec"], flags, "quick", 0, rec["wseed"], rec["train"], rec.get("temp", 1.0)))
    finally:
        me.pick_instances = orig
    return bool(p.violations), "; ".join(v["msg"] for v in p.violations[:3]) or "round trip holds"
