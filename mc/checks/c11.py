"""C11 — returned log-likelihoods are those of the returned actions (evaluate round trip).

For each bundled constructive policy x supported environment (tiny random weights, eval and train mode) and
each small alphabet instance, the COMPLETE set of feasible action sequences (leaves of the exhaustive E1 tree) is
(1) evaluated with `policy(td, env, actions=seq)`: per-step log-probs, reward, entropy;
(2) compared with a reference recomputed by the harness from the decoder's raw logits and the environment mask
    at every state of the path (independent masked log-softmax in float64) -- for policies that follow the
    ConstructivePolicy decoder protocol;
(3) summed: sum over ALL complete sequences of exp(log_likelihood) must be 1 (global normalisation oracle: any
    mis-aligned gather, unmasked distribution or off-by-one step breaks it);
(4) reproduced by the decoders: `decode_type='sampling'` under the RNG seam (E3: every positive-probability
    answer of every multinomial => the full trajectory tree the sampler can emit), greedy, multistart_greedy /
    multistart_sampling (forced first move contributes zero): actions, log-likelihood, reward and entropy must be
    those of (1) for the very same sequence, so the PPO ratio exp(new_ll - old_ll) is 1.
"""
from __future__ import annotations

import math
import os

import torch

from .. import explore as E
from ..core import Partial, Report, pmap, seed_from_env
from ..policies import PAIRS, make
from ..registry import ALL_SPECS
from ..seam import ExplorationCapped, Seam, explore

PID = "C11"
TOL = 2e-4


def sig(pkey, skey, observable, trigger):
    return dict(property=PID, env=skey.partition(":")[0], config=f"{pkey}|{skey.partition(':')[2]}", observable=observable, trigger=trigger)


def pick_instances(spec, tier, seed):
    insts = spec.instances(tier if tier == "quick" else "quick", seed)
    # smallest trees first: one hand-built and one seeded instance
    hand = [x for x in insts if not x[0].startswith("gen-")]
    gen = [x for x in insts if x[0].startswith("gen-")]
    out = []
    if hand:
        out.append(hand[len(hand) // 2])
    if gen:
        out.append(gen[0])
    if tier == "thorough" and len(hand) > 2:
        out.append(hand[-1])
    return out


def evaluate_all(pol, env, td0, leaves, eval_kw="actions", phase="test"):
    res = {}
    by_len = {}
    for h in leaves:
        by_len.setdefault(len(h), []).append(h)
    for L, seqs in by_len.items():
        for lo in range(0, len(seqs), 512):
            chunk = seqs[lo : lo + 512]
            td = env.reset(torch.cat([td0] * len(chunk), 0))
            acts = torch.tensor([list(h) for h in chunk], dtype=torch.long).reshape(len(chunk), L)
            E._set_bs(env, len(chunk))
            with torch.no_grad(), Seam(tile_rows=True).active():
                kw = {eval_kw: acts}
                try:
                    out = pol(td, env, phase=phase, return_sum_log_likelihood=False, return_entropy=True, calc_reward=True, **kw)
                except KeyError:
                    out = pol(td, env, phase=phase, return_sum_log_likelihood=False, calc_reward=True, **kw)
            if "entropy" not in out:
                out["entropy"] = torch.full((len(chunk),), float("nan"))
            ll = out["log_likelihood"].double()
            for i, h in enumerate(chunk):
                steps = ll[i].tolist()
                res[h] = (steps if isinstance(steps, list) else [steps], float(out["reward"][i]), float(out["entropy"][i]))
    return res


def reference_steps(pol, env, td0, h):
    """per-step log-prob of the taken action from the decoder's raw logits and mask (ConstructivePolicy protocol)"""
    td = env.reset(td0.clone())
    with torch.no_grad(), Seam(tile_rows=True).active():
        hidden, _ = pol.encoder(td)
        td, env_, hidden = pol.decoder.pre_decoder_hook(td, env, hidden, 0)
        out = []
        for a in h:
            logits, mask = pol.decoder(td, hidden, 0)
            lg = logits.double().reshape(1, -1)
            if pol.tanh_clipping > 0:
                lg = torch.tanh(lg) * pol.tanh_clipping
            lg = lg / pol.temperature
            lg = lg.masked_fill(~mask.reshape(1, -1), float("-inf"))
            lp = lg - torch.logsumexp(lg, dim=-1, keepdim=True)
            out.append(float(lp[0, a]))
            td.set("action", torch.tensor([a]))
            E._set_bs(env, 1)
            td = env.step(td)["next"]
    return out


def unit(item):
    pkey, skey, flags, tier, seed, wseed, train = item[:7]
    temp = item[7] if len(item) > 7 else 1.0
    spec = ALL_SPECS[skey]
    p = Partial()
    mode = ("train" if train else "eval") + ("" if temp == 1.0 else f"|T={temp}")
    for iid, inst in pick_instances(spec, tier, seed):
        env = spec.env(inst)
        td0 = spec.td(inst)
        tree = E.explore(env, td0, keep_nodes=False)
        if tree.capped or not tree.leaves or len(tree.leaves) > (3000 if tier == "quick" else 20000):
            p.add(skipped_large=1)
            continue
        pol = make(pkey, env, wseed, train)
        if temp != 1.0:
            pol.temperature = temp  # the policy's softmax temperature (constructor argument of every constructive policy)
        B1 = 2 if flags.get("no_batch1") else 1
        leaves = tree.leaves
        p.add(states=tree.states, transitions=tree.transitions)
        try:
            phase = "train" if train else "test"
            ev = evaluate_all(pol, env, td0, leaves, flags.get("eval_kw", "actions"), phase)
        except Exception as e:  # noqa: BLE001
            p.violation(sig(pkey, skey, f"crash:{type(e).__name__}", f"evaluate|{mode}"), dict(kind="c11", policy=pkey, spec=skey, instance_id=iid, instance=inst, wseed=wseed, train=train, temp=temp, what="evaluate"), f"{pkey} x {skey} {iid} ({mode}): evaluate mode crashed: {type(e).__name__}: {str(e)[:120]}")
            continue
        p.add(evaluations=len(leaves), distinct_count=len(leaves))
        # (3) global normalisation
        if not flags.get("multipath") and not flags.get("polynet"):
            tot = sum(math.exp(sum(v[0])) for v in ev.values())
            p.outcome(f"{pkey}|{skey}|norm{round(tot, 3)}")
            if abs(tot - 1.0) > 1e-3:
                p.violation(sig(pkey, skey, "normalisation", f"sum_over_all_sequences|{mode}"), dict(kind="c11", policy=pkey, spec=skey, instance_id=iid, instance=inst, wseed=wseed, train=train, temp=temp, what="normalisation"), f"{pkey} x {skey} {iid} ({mode}): sum over all {len(ev)} complete sequences of exp(log_likelihood) = {tot:.6f}, expected 1")
        # (2) reference per-step log-probs
        if flags.get("base") and not train:
            for h in [leaves[i] for i in E.pick_indices(len(leaves), 12 if tier == "quick" else 60)]:
                try:
                    ref = reference_steps(pol, env, td0, h)
                except Exception as e:  # noqa: BLE001
                    p.note(f"{pkey} x {skey}: reference stepping not possible ({type(e).__name__}: {str(e)[:80]})")
                    break
                p.add(traces_validated_against_impl=1)
                got = ev[h][0]
                if len(got) != len(ref) or any(abs(a - b) > TOL for a, b in zip(got, ref)):
                    p.violation(sig(pkey, skey, "per_step_logprob", f"evaluate|{mode}"), dict(kind="c11", policy=pkey, spec=skey, instance_id=iid, instance=inst, wseed=wseed, train=train, temp=temp, what="reference", actions=list(h)), f"{pkey} x {skey} {iid}: per-step log-probs of {list(h)} from evaluate {[round(x, 4) for x in got]} differ from the masked log-softmax of the decoder logits {[round(x, 4) for x in ref]}")
        # (4) decoders
        def check_rollout(kind, acts, ll, rew, ent, skip_first=0):
            h = tuple(acts)
            if h not in ev:
                p.violation(sig(pkey, skey, "actions", f"{kind}|{mode}"), dict(kind="c11", policy=pkey, spec=skey, instance_id=iid, instance=inst, wseed=wseed, train=train, temp=temp, what=kind, actions=list(h)), f"{pkey} x {skey} {iid}: {kind} decoding returned {list(h)}, which is not a complete feasible sequence")
                return
            steps, r, en = ev[h]
            want = sum(steps[skip_first:])
            if abs(ll - want) > TOL:
                p.violation(sig(pkey, skey, "log_likelihood", f"{kind}|{mode}"), dict(kind="c11", policy=pkey, spec=skey, instance_id=iid, instance=inst, wseed=wseed, train=train, temp=temp, what=kind, actions=list(h)), f"{pkey} x {skey} {iid} ({mode}): {kind} returned log-likelihood {ll:.6f} for {list(h)}, evaluate gives {want:.6f} (PPO ratio {math.exp(want - ll):.6f})")
            if abs(rew - r) > 1e-5 * (1 + abs(r)):
                p.violation(sig(pkey, skey, "reward", f"{kind}|{mode}"), dict(kind="c11", policy=pkey, spec=skey, instance_id=iid, instance=inst, wseed=wseed, train=train, temp=temp, what=kind, actions=list(h)), f"{pkey} x {skey} {iid}: {kind} reward {rew} vs evaluate {r} for {list(h)}")
            if ent is not None and en == en and ent == ent and skip_first == 0 and abs(ent - en) > 1e-4 * (1 + abs(en)):
                p.violation(sig(pkey, skey, "entropy", f"{kind}|{mode}"), dict(kind="c11", policy=pkey, spec=skey, instance_id=iid, instance=inst, wseed=wseed, train=train, temp=temp, what=kind, actions=list(h)), f"{pkey} x {skey} {iid}: {kind} entropy {ent} vs evaluate {en} for {list(h)}")

        if flags.get("multipath") or flags.get("polynet") or flags.get("no_roundtrip"):
            p.note(f"{pkey}: per-path / per-strategy outputs; only evaluate-mode consistency is checked")
            continue

        def run(seam):
            td = env.reset(torch.cat([td0] * B1, 0))
            E._set_bs(env, B1)
            with torch.no_grad(), seam.active():
                try:
                    o = pol(td, env, phase=phase, decode_type="sampling", return_entropy=True)
                except KeyError:
                    o = pol(td, env, phase=phase, decode_type="sampling")
                    o["entropy"] = torch.full((B1,), float("nan"))
            if "entropy" not in o:
                o["entropy"] = torch.full((B1,), float("nan"))
            return o["actions"][0].tolist(), float(o["log_likelihood"][0]), float(o["reward"][0]), float(o["entropy"][0])

        sampled = set()
        try:
            for ch, (acts, ll, rew, ent), seam in explore(run, max_dev=None, limit=4000 if tier == "quick" else 30000, float_patterns=False, tie_rows=(B1 > 1), tile_rows=True):
                p.add(states=1, transitions=len(ch), evaluations=1)
                sampled.add(tuple(acts))
                check_rollout("sampling", acts, ll, rew, ent)
            missing = set(ev) - sampled
            if missing:
                p.violation(sig(pkey, skey, "support", f"sampling|{mode}"), dict(kind="c11", policy=pkey, spec=skey, instance_id=iid, instance=inst, wseed=wseed, train=train, temp=temp, what="sampling", actions=list(sorted(missing)[0])), f"{pkey} x {skey} {iid}: sampler can never emit the feasible sequence {list(sorted(missing)[0])} ({len(missing)} of {len(ev)} unreachable)")
        except ExplorationCapped:
            p.add(caps_hit=1)
        # greedy
        td = env.reset(torch.cat([td0] * B1, 0))
        E._set_bs(env, B1)
        with torch.no_grad(), Seam(tile_rows=True).active():
            try:
                o = pol(td, env, phase=phase, decode_type="greedy", return_entropy=True)
            except KeyError:
                o = pol(td, env, phase=phase, decode_type="greedy")
                o["entropy"] = torch.full((B1,), float("nan"))
        if "entropy" not in o:
            o["entropy"] = torch.full((B1,), float("nan"))
        check_rollout("greedy", o["actions"][0].tolist(), float(o["log_likelihood"][0]), float(o["reward"][0]), float(o["entropy"][0]))
        # multistart (forced first move contributes zero)
        n_act = len(tree.masks_seen and next(iter(tree.masks_seen)))
        for k in (2, 3) if flags.get("base") else ():
            for dt in ("multistart_greedy", "multistart_sampling"):
                td = env.reset(torch.cat([td0] * B1, 0))
                try:
                    with torch.no_grad(), Seam(tile_rows=True).active():
                        E._set_bs(env, B1 * k)
                        o = pol(td, env, phase=phase, decode_type=dt, num_starts=k)
                except Exception as e:  # noqa: BLE001
                    p.note(f"{pkey} x {skey}: {dt} with num_starts={k} not runnable here ({type(e).__name__}: {str(e)[:80]}) - start-node rules are C12's business")
                    continue
                first_ok = {h[0] for h in ev}
                for r in range(0, B1 * k, B1):
                    acts = o["actions"][r].tolist()
                    if acts[0] not in first_ok:
                        p.add(infeasible_forced_starts=1)  # start-node feasibility is C12's business
                        continue
                    # trailing padding of rows that finished earlier than their siblings
                    while tuple(acts) not in ev and len(acts) > 1:
                        acts = acts[:-1]
                    if tuple(acts) in ev and len(acts) < o["actions"].shape[1]:
                        p.add(padded_rollouts=1)
                        continue  # padded rows carry the log-probs of their padding steps; compared in C12/C04 instead
                    check_rollout(f"{dt}", acts, float(o["log_likelihood"][r]), float(o["reward"][r]), None, skip_first=1)
                    p.add(evaluations=1)
        p.sample(dict(policy=pkey, env=skey, instance=iid, mode=mode, complete_sequences=len(ev), sampled_sequences=len(sampled)), cap=1)
    return p


def main(tier):
    rep = Report(PID, tier, rule="one case = one complete feasible action sequence of one instance under one (policy, environment, weight seed, mode): evaluated, re-derived from raw logits, and re-produced by the sampling/greedy/multistart decoders under every sampler answer; distinct = distinct (policy, env, instance, sequence)")
    rep.assumptions = [
        "policies have tiny random weights (embed 16, 1 layer, 2 heads; 2 weight seeds in thorough); the property is weight independent",
        "train mode compares passes over the identical batch only (batch norm couples rows by design)",
        "DeepACO / NARGNN need torch_geometric (not installed); MatNet x FFSP cannot be constructed at this commit (decoder kwarg error); MDAM / PolyNet: evaluate-mode consistency only",
        "instances with more than 3000 (quick) complete sequences are skipped and counted",
    ]
    seed = seed_from_env()
    only = os.environ.get("VERIF_ONLY")
    items = []
    for pkey, skey, flags in PAIRS:
        if only and only not in f"{pkey}|{skey}":
            continue
        for wseed in (0,) if tier == "quick" else (0, 1):
            items.append((pkey, skey, flags, tier, seed, wseed, False))
        if pkey in ("am", "symnco", "ham", "l2d") and (tier == "thorough" or skey in ("tsp", "cvrp", "pdp", "fjsp:mask")):
            items.append((pkey, skey, flags, tier, seed, 0, True))
        if flags.get("base") and (tier == "thorough" or skey in ("tsp", "cvrp", "op:dist", "pdp")):
            items.append((pkey, skey, flags, tier, seed, 0, False, 2.0))
            if tier == "thorough":
                items.append((pkey, skey, flags, tier, seed, 1, False, 0.5))
    rep.merge_all(pmap(unit, items))
    rep.extra["pairs"] = sorted({f"{i[0]}x{i[1]}" for i in items})
    return rep.finish()


def replay(rec):
    spec = ALL_SPECS[rec["spec"]]
    spec._inst_cache[("replay", 0)] = [(rec["instance_id"], rec["instance"])]
    flags = next(f for pk, sk, f in PAIRS if pk == rec["policy"] and sk == rec["spec"])
    import mc.checks.c11 as me

    orig = me.pick_instances
    me.pick_instances = lambda spec_, tier, seed: [(rec["instance_id"], rec["instance"])]
    try:
        p = unit((rec["policy"], rec["spec"], flags, "quick", 0, rec["wseed"], rec["train"], rec.get("temp", 1.0)))
    finally:
        me.pick_instances = orig
    return bool(p.violations), "; ".join(v["msg"] for v in p.violations[:3]) or "round trip holds"
