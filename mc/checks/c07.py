"""C07 — scheduling environments always yield valid schedules with the reported makespan.

E1 tree over FJSP / JSSP (mask_no_ops on and off, so wait actions are explored), FFSP (flatten_stages on/off)
and SMTWTP: ALL mask-admitted action sequences of every alphabet instance (incl. instances padded to a
larger operation count) are executed on the real env.step.  Every leaf is judged twice:
  * the schedule the library reports in its final TensorDict must be a valid schedule of the ORIGINAL
    instance (each op once, eligible machine, exact duration, job order, no machine overlap) and its
    makespan must equal -reward;
  * an independent event simulator (mc/oracles/sched.py) replays the action list under the documented
    action semantics: it must admit exactly the actions the mask admitted at every step, finish at
    the same step and produce the same schedule.
"""
from __future__ import annotations

import torch

from .. import explore as E
from ..core import Partial, Report, pmap, seed_from_env
from ..oracles import sched as OS
from ..sched import SPECS
from ..rtree import sig

PID = "C07"


def leaf_rewards(spec, env, tree):
    """FFSP only writes the reward once every row of the stepped batch is done: finished rows are stepped once
    more with the offered wait action, as a batch of finished rows (what the decoding loop's last step is)."""
    if tree.leaf_td is None:
        return []
    td = tree.leaf_td
    if spec.kind == "ffsp":
        J = td["action_mask"].shape[-1] - 1
        td = E.step_batch(env, td, [J] * td.batch_size[0])
    acts = torch.zeros(td.batch_size[0], 1, dtype=torch.long)
    E._set_bs(env, td.batch_size[0])
    return env._get_reward(td, acts).reshape(td.batch_size[0], -1)[:, 0].tolist(), td


def judge_leaf(spec, inst, h, row, reward):
    """returns list of (observable, trigger, text)"""
    out = []
    if spec.kind in ("fjsp", "jssp"):
        start = row["start_times"]
        finish = row["finish_times"]
        assign = row["ma_assignment"]
        probs = OS.validate_fjsp(inst, start, finish, assign, makespan_reported=-reward)
        for pr in probs:
            out.append(("schedule", pr.split(":")[0].rstrip("0123456789") if ":" in pr else pr.split("_")[0], f"reported schedule invalid: {pr}"))
        sim = OS.simulate_fjsp(inst, h, jssp=spec.jssp, mask_no_ops=spec.mask_no_ops)
        if not sim.done():
            out.append(("done", "simulator_not_done", "independent simulator has unscheduled operations after the episode"))
        else:
            for op, (m, s, e) in sim.sched.items():
                if abs(start[op] - s) > 1e-6 or abs(finish[op] - e) > 1e-6 or assign[m][op] < 0.5:
                    out.append(("schedule", "differs_from_action_semantics", f"op {op}: library ({start[op]},{finish[op]}) vs simulated machine {m} ({s},{e})"))
                    break
            if abs(sim.makespan() + reward) > 1e-6:
                out.append(("reward", "makespan", f"reward {reward} vs simulated makespan {sim.makespan()}"))
    elif spec.kind == "ffsp":
        sched = row["schedule"]
        J = len(inst["run_time"])
        probs = OS.validate_ffsp(inst, [r[:J] for r in sched], spec.num_stage, makespan_reported=-reward)
        for pr in probs:
            out.append(("schedule", pr.split(":")[-1].split("_")[0] if ":" in pr else "makespan", f"reported schedule invalid: {pr}"))
        sim = OS.simulate_ffsp(inst, h, spec.num_stage)
        if not sim.done():
            out.append(("done", "simulator_not_done", "independent slot simulator has unprocessed stages after the episode"))
        else:
            for (m, j), s in sim.sched.items():
                if sched[m][j] != s:
                    out.append(("schedule", "differs_from_action_semantics", f"job {j} on machine {m}: library start {sched[m][j]} vs simulated {s}"))
                    break
            if abs(sim.makespan() + reward) > 1e-6:
                out.append(("reward", "makespan", f"reward {reward} vs simulated makespan {sim.makespan()}"))
    else:  # smtwtp
        for pr in OS.smtwtp_check(inst, list(h)):
            out.append(("schedule", pr, pr))
    return out


def mask_conformance(spec, inst, tree):
    """the simulator's offered actions must equal the mask in every explored state (FJSP/JSSP/FFSP)"""
    bad = []
    if spec.kind == "smtwtp":
        return bad
    for nd in tree.nodes:
        if spec.kind == "ffsp":
            sim = OS.simulate_ffsp(inst, nd.hist, spec.num_stage)
        else:
            sim = OS.simulate_fjsp(inst, nd.hist, jssp=spec.jssp, mask_no_ops=spec.mask_no_ops)
        offered = [a for a, m in enumerate(nd.mask) if m]
        if sim.done() != nd.done or (sorted(sim.actions()) != offered):
            bad.append((nd.hist, offered, sorted(sim.actions()), nd.done, sim.done()))
            if len(bad) >= 3:
                break
    return bad


def unit(item):
    key, tier, seed = item
    spec = SPECS[key]
    p = Partial()
    for iid, inst in spec.instances(tier, seed):
        env = spec.env(inst)
        td0 = spec.td(inst)
        tree = E.explore(env, td0)
        p.add(states=tree.states, transitions=tree.transitions, leaves=len(tree.leaves), trees=1, distinct_count=len(tree.leaves))
        p.maxi(max_depth=tree.max_depth)
        if tree.capped:
            p.add(caps_hit=1)
        for h in tree.dead:
            p.note(f"{spec.key} {iid}: dead end after {list(h)} (reported under C02)")
        for h, e in tree.crashes:
            p.violation(
                sig(PID, spec, f"crash:{type(e).__name__}", "mask_admitted_step"),
                dict(kind="sched_trace", spec=spec.key, instance_id=iid, instance=inst, actions=list(h)),
                f"{spec.key} {iid}: the mask-admitted step {list(h)} raises {type(e).__name__}: {str(e)[:100]} (no schedule is produced)",
            )
        if not tree.leaves:
            continue
        if spec.kind == "smtwtp":
            rewards = E.rewards_of_leaves(env, tree)
            rows = [dict() for _ in tree.leaves]
        else:
            rewards, tdf = leaf_rewards(spec, env, tree)
            keys = ["start_times", "finish_times", "ma_assignment"] if spec.kind != "ffsp" else ["schedule"]
            cols = {k: tdf[k].tolist() for k in keys}
            rows = [{k: cols[k][i] for k in keys} for i in range(len(tree.leaves))]
        for h, row, r in zip(tree.leaves, rows, rewards):
            p.add(evaluations=1)
            for obs, trig, text in judge_leaf(spec, inst, h, row, r):
                p.violation(
                    sig(PID, spec, obs, trig),
                    dict(kind="sched_trace", spec=spec.key, instance_id=iid, instance=inst, actions=list(h)),
                    f"{spec.key} {iid}: actions {list(h)}: {text}",
                )
            p.outcome(f"{spec.key}|{r}")
        for hist, offered, simacts, d1, d2 in mask_conformance(spec, inst, tree):
            p.violation(
                sig(PID, spec, "mask", "differs_from_documented_dispatching"),
                dict(kind="sched_trace", spec=spec.key, instance_id=iid, instance=inst, actions=list(hist)),
                f"{spec.key} {iid}: after {list(hist)} the mask offers {offered} (done={d1}) but the documented rule gives {simacts} (done={d2})",
            )
        # solo conformance of a few paths
        for i in E.pick_indices(len(tree.leaves), 4 if tier == "quick" else 10):
            h = tree.leaves[i]
            td, masks, dones = E.run_solo(env, td0, h)
            p.add(traces_validated_against_impl=1)
            if not dones[-1] or any(dones[:-1]):
                p.note(f"{spec.key} {iid}: solo replay of {list(h)} disagrees with the batched frontier on done (C04)")
        p.sample(dict(env=spec.key, instance=iid, leaves=len(tree.leaves), example=list(tree.leaves[0]), makespan=-rewards[0]), cap=1)
    return p


def unit_files(item):
    """Instances READ FROM FILES: alphabet instances with different operation counts are written to one directory in the
    documented text formats, read back by the library's file generator (which pads them to a common size) and every
    mask-admitted action sequence of the re-read instance is judged against the ORIGINAL instance exactly like above
    (reported schedule valid for the original data, makespan = -reward, independent simulator agrees)."""
    import shutil
    import tempfile

    from .c19 import _scratch, write_jssp_files

    _, key, tier, seed = item
    spec = SPECS[key]
    p = Partial()
    if spec.jssp:
        from rl4co.envs.scheduling.jssp.generator import JSSPFileGenerator as FileGen
        parser = None
    else:
        from rl4co.envs.scheduling.fjsp import parser
        from rl4co.envs.scheduling.fjsp.generator import FJSPFileGenerator as FileGen
    by_jobs = {}
    for iid, inst in spec.instances("quick", seed):
        if max(max(r) for r in inst["proc_times"]) > 100:
            continue
        by_jobs.setdefault((len(inst["start_op_per_job"]), len(inst["proc_times"])), []).append((iid, inst))
    for (J, M), group in sorted(by_jobs.items()):
        reals = {}
        for iid, inst in group:
            reals.setdefault(sum(1 for x in inst["pad_mask"] if not x), (iid, inst))
        if len(reals) < 2:
            continue
        chosen = [reals[k] for k in sorted(reals)][:3]
        d = tempfile.mkdtemp(prefix="c07_", dir=_scratch())
        try:
            env0 = spec.env(chosen[0][1])
            if parser is not None:
                parser.write(d, env0.reset(torch.cat([spec.td(c[1]) for c in chosen], 0)))
            else:
                write_jssp_files(d, [c[1] for c in chosen])
            td1 = FileGen(d)(len(chosen))
            for r in range(td1.batch_size[0]):
                one = td1[r : r + 1].clone()
                real = int((~one["pad_mask"][0]).sum())
                cand = [c for c in chosen if torch.equal(torch.tensor(c[1]["proc_times"])[:, : sum(1 for x in c[1]["pad_mask"] if not x)].float(), one["proc_times"][0, :, : sum(1 for x in c[1]["pad_mask"] if not x)].float()) and not bool(one["proc_times"][0, :, sum(1 for x in c[1]["pad_mask"] if not x) :].any())]
                if not cand:
                    continue  # content changes through the text format are C19's business
                iid, inst = cand[0]
                n_real = sum(1 for x in inst["pad_mask"] if not x)
                rec0 = dict(kind="sched_file", spec=spec.key, instance_id=iid, instance=inst, directory_of=[c[0] for c in chosen])
                if real != n_real:
                    p.violation(sig(PID, spec, "schedule", "file_instance_operation_count"), rec0, f"{spec.key} {iid}: read back from a directory of {len(chosen)} files the instance has {real} non-padding operations, the written one has {n_real} (a phantom / missing operation can never be scheduled exactly once)")
                    continue
                env = spec.env(inst)
                one["start_op_per_job"] = one["start_op_per_job"].long()
                one["end_op_per_job"] = one["end_op_per_job"].long()
                tree = E.explore(env, one, max_states=20_000)
                p.add(states=tree.states, transitions=tree.transitions, trees=1, distinct_count=len(tree.leaves))
                if tree.capped or not tree.leaves:
                    p.add(caps_hit=1 if tree.capped else 0)
                    continue
                rewards, tdf = leaf_rewards(spec, env, tree)
                keys = ["start_times", "finish_times", "ma_assignment"]
                cols = {k: tdf[k].tolist() for k in keys}
                n_ops = len(inst["pad_mask"])
                for li, (h, rwd) in enumerate(zip(tree.leaves, rewards)):
                    row = {k: cols[k][li] for k in keys}
                    # the re-read instance may be padded to a different width: compare on the original's columns
                    row = dict(start_times=row["start_times"][:n_ops], finish_times=row["finish_times"][:n_ops], ma_assignment=[m[:n_ops] for m in row["ma_assignment"]])
                    p.add(evaluations=1)
                    for obs, trig, text in judge_leaf(spec, inst, h, row, rwd):
                        p.violation(sig(PID, spec, obs, f"file_instance|{trig}"), dict(rec0, actions=list(h)), f"{spec.key} {iid} (read from file): actions {list(h)}: {text}")
                        break
                p.outcome(f"{spec.key}|file|{iid}")
        finally:
            shutil.rmtree(d, ignore_errors=True)
    p.sample(dict(part="instances read from files", env=spec.key), cap=1)
    return p


def dispatch(item):
    return unit_files(item) if item[0] == "files" else unit(item)


def main(tier):
    rep = Report(PID, tier, rule="one case = one complete mask-admitted action sequence (incl. wait actions) of one scheduling instance; distinct = distinct (environment/config, instance, sequence); each is validated against the instance and against an independent simulator")
    rep.assumptions = [
        "instances: all eligibility patterns on 2 machines for 2 jobs with <=2 ops (padded to 4 ops), time lattice {1,2,3}, plus seeded generator instances; thorough adds 3x2 / 2x3",
        "FFSP rewards are read after one extra wait step of the finished rows (the library only writes rewards once the whole batch is done)",
    ]
    import os

    seed = seed_from_env()
    only = os.environ.get("VERIF_ONLY")
    items = [(k, tier, seed) for k in SPECS if not only or only in k]
    files = [("files", k, tier, seed) for k in ("fjsp:mask", "jssp:mask", "fjsp:wait") if not only or only in k]
    rep.merge_all(pmap(dispatch, items + files))
    rep.extra["environments"] = sorted(i[0] for i in items)
    return rep.finish()


def replay(rec):
    spec = SPECS[rec["spec"]]
    if rec.get("kind") == "sched_file":
        p = unit_files(("files", rec["spec"], "quick", 0))
        hit = [v for v in p.violations if v["replay"].get("instance_id") == rec["instance_id"]]
        return bool(hit), "; ".join(v["msg"] for v in hit[:2]) or "file instances yield valid schedules"
    inst = rec["instance"]
    env = spec.env(inst)
    try:
        td, masks, dones = E.run_solo(env, spec.td(inst), rec["actions"])
    except Exception as e:  # noqa: BLE001
        return True, f"solo replay raises {type(e).__name__}: {e}"
    h = tuple(rec["actions"])
    obs = rec["signature"]["observable"]
    if obs.startswith("crash"):
        return False, "the trace replays without raising"
    if obs == "mask":
        sim = OS.simulate_ffsp(inst, h, spec.num_stage) if spec.kind == "ffsp" else OS.simulate_fjsp(inst, h, jssp=spec.jssp, mask_no_ops=spec.mask_no_ops)
        offered = [a for a, m in enumerate(masks[-1]) if m]
        return sorted(sim.actions()) != offered or sim.done() != dones[-1], f"mask offers {offered}, documented rule {sorted(sim.actions())}"
    if spec.kind == "smtwtp":
        probs = OS.smtwtp_check(inst, list(h))
        return bool(probs), f"{probs}"
    E._set_bs(env, 1)
    r = float(env._get_reward(td, torch.zeros(1, 1, dtype=torch.long)).reshape(-1)[0])
    keys = ["start_times", "finish_times", "ma_assignment"] if spec.kind != "ffsp" else ["schedule"]
    row = {k: td[k][0].tolist() for k in keys}
    res = judge_leaf(spec, inst, h, row, r)
    return bool(res), f"solo replay: reward {r}; findings {res}"
