"""C15 — augmentation preserves costs; evaluation reports true best-of-k results.

(a) E5 x E3 on the real augmentation code: dihedral_8_augmentation, symmetric_augmentation (its torch.rand angle
    draw answered by the RNG seam: default + every single deviation over the patterns all-zero, all-high
    (-> 4*pi, reflection branch), ramps, alternating) and StateAugmentation for both families, num_augment in
    {2,4,8}, batch sizes 1..3, on lattice and seeded coordinate sets: every copy must be an isometry of its
    instance (all pairwise distances equal within 1e-5), copy 0 must be the original, row a*B+b must belong to
    instance b, untouched keys must be replicated unchanged; and EVERY complete action sequence of small TSP / CVRP
    instances has the same cost on every augmented copy as on the original.
(b) evaluate_policy for greedy, sampling, multistart_greedy, augment, augment_dihedral_8, multistart_greedy_augment
    (+ dihedral) with explicit data-loader batch sizes 1..3 on datasets of 3-4 instances (last batch partial):
    the reported reward of instance i must equal the oracle objective of the returned actions on the ORIGINAL
    instance i, must be the maximum over that instance's candidate rollouts (recomputed by running the policy on
    that instance alone under the same RNG answers), and must not be worse than single greedy decoding whenever the
    identity copy with the greedy rollout is among the candidates.
"""
from __future__ import annotations

import itertools
import math
import os

import torch
from tensordict import TensorDict

from .. import explore as E
from ..core import Partial, Report, pmap, seed_from_env
from ..oracles import routing as O
from ..policies import make
from ..registry import ALL_SPECS
from ..seam import Seam, explore

PID = "C15"
LATTICE = [(0.5 + 3 / 16, 0.5), (0.5, 0.5 + 4 / 16), (0.5 - 3 / 16, 0.5), (0.5, 0.5 - 4 / 16)]
GEN = [(8 / 64, 8 / 64), (40 / 64, 16 / 64), (56 / 64, 48 / 64), (24 / 64, 56 / 64), (1.0, 0.0)]


def sig(env, config, observable, trigger):
    return dict(property=PID, env=env, config=config, observable=observable, trigger=trigger)


def pdist(x):
    return (x[:, :, None, :] - x[:, None, :, :]).double().norm(dim=-1)


def coord_sets(seed):
    g = torch.Generator().manual_seed(9000 + seed)
    return [torch.tensor(LATTICE), torch.tensor(GEN[:4]), torch.tensor([(0.0, 0.0), (1.0, 1.0), (0.0, 1.0), (1.0, 0.0)]), torch.rand(4, 2, generator=g)]


# ------------------------------------------------------------------------------------------- (a)


def unit_aug(item):
    from rl4co.data.transforms import StateAugmentation, dihedral_8_augmentation, symmetric_augmentation

    _, tier, seed = item
    p = Partial()
    sets = coord_sets(seed)
    for B in (1, 2, 3):
        xy = torch.stack(sets[:B]).float()
        d0 = pdist(xy)
        # dihedral
        aug = dihedral_8_augmentation(xy)
        p.add(states=1, evaluations=8 * B, transitions=1)
        rec = dict(kind="aug", family="dihedral8", B=B, seed=seed)
        if aug.shape[0] != 8 * B:
            p.violation(sig("augmentation", "dihedral8", "shape", f"B={B}"), rec, f"dihedral_8_augmentation returns {aug.shape[0]} rows for batch {B}")
        else:
            if not torch.equal(aug[:B], xy):
                p.violation(sig("augmentation", "dihedral8", "first_copy", f"B={B}"), rec, "dihedral_8_augmentation: copy 0 is not the original")
            da = pdist(aug)
            for r in range(8 * B):
                if (da[r] - d0[r % B]).abs().max() > 1e-5:
                    p.violation(sig("augmentation", "dihedral8", "isometry", f"B={B}"), rec, f"dihedral_8_augmentation: row {r} is not a distance-preserving copy of instance {r % B}")
                    break
            if len({tuple(aug[i * B].flatten().tolist()) for i in range(8)}) < 8 and B >= 1:
                p.note("dihedral copies of a symmetric point set coincide (fine)")
        # symmetric under the seam
        for A in (2, 4, 8):
            xyA = xy.repeat(A, 1, 1)  # rows a*B+b

            def run(seam):
                with seam.active():
                    return symmetric_augmentation(xyA.clone(), A)

            for ch, out, seam in explore(run, max_dev=1, limit=200):
                p.add(states=1, evaluations=A * B, transitions=len(ch))
                p.case(f"sym|{B}|{A}|{ch}")
                rec = dict(kind="aug", family="symmetric", B=B, A=A, choices=ch, seed=seed)
                if not torch.allclose(out[:B], xy, atol=1e-6):
                    p.violation(sig("augmentation", "symmetric", "first_copy", f"A={A}"), rec, f"symmetric_augmentation(num_augment={A}, B={B}, rng answer {ch}): the first copy is not the original instance")
                da = pdist(out)
                bad = [r for r in range(A * B) if (da[r] - d0[r % B]).abs().max() > 1e-5]
                if bad:
                    p.violation(sig("augmentation", "symmetric", "isometry", f"A={A}"), rec, f"symmetric_augmentation(num_augment={A}, B={B}, rng answer {ch}): rows {bad[:4]} are not distance-preserving copies of their instance")
                p.outcome(f"sym|{round(float(out.sum()), 3)}")
        # StateAugmentation on a TensorDict with an extra key
        for fam, As in (("symmetric", (2, 4, 8)), ("dihedral8", (8,))):
            for A in As:
                td = TensorDict(dict(locs=xy.clone(), tag=torch.arange(B).float()[:, None] + 0.25), batch_size=[B])

                def run(seam):
                    with seam.active():
                        return StateAugmentation(num_augment=A, augment_fn=fam)(td.clone())

                for ch, out, seam in explore(run, max_dev=1, limit=200):
                    p.add(states=1, evaluations=A * B, transitions=max(1, len(ch)))
                    p.case(f"state|{fam}|{B}|{A}|{ch}")
                    rec = dict(kind="aug", family=f"state:{fam}", B=B, A=A, choices=ch, seed=seed)
                    if out.batch_size[0] != A * B:
                        p.violation(sig("augmentation", f"state:{fam}", "shape", f"A={A}"), rec, f"StateAugmentation({fam}, {A}) returns batch {out.batch_size}")
                        continue
                    if any(abs(float(out["tag"][r]) - (r % B + 0.25)) > 0 for r in range(A * B)):
                        p.violation(sig("augmentation", f"state:{fam}", "row_identity", f"A={A}"), rec, f"StateAugmentation({fam}, {A}): row r does not carry instance r mod B's other fields")
                    if not torch.allclose(out["locs"][:B], xy, atol=1e-6):
                        p.violation(sig("augmentation", f"state:{fam}", "first_copy", f"A={A}"), rec, f"StateAugmentation({fam}, {A}, rng {ch}): copy 0 is not the original")
                    da = pdist(out["locs"])
                    bad = [r for r in range(A * B) if (da[r] - d0[r % B]).abs().max() > 1e-5]
                    if bad:
                        p.violation(sig("augmentation", f"state:{fam}", "isometry", f"A={A}"), rec, f"StateAugmentation({fam}, {A}, rng {ch}): rows {bad[:4]} are not isometric copies of their instance")
    # costs of all action sequences on every augmented copy
    for skey in ("tsp", "cvrp"):
        spec = ALL_SPECS[skey]
        insts = [x for x in spec.instances("quick", seed) if x[0] in ("diamond4", "generic5", "diamond3-1-2-3", "generic4")][:2]
        for iid, inst in insts:
            env = spec.env(inst)
            td0 = spec.td(inst)
            tree = E.explore(env, td0, keep_nodes=False)
            leaves = tree.leaves
            base = dict(zip(leaves, E.rewards_of_leaves(env, tree)))
            for fam, A in (("dihedral8", 8), ("symmetric", 4)):
                for script in ([], [2], [3]):
                    tdr = env.reset(td0.clone())
                    with Seam(script).active():
                        tda = StateAugmentation(num_augment=A, augment_fn=fam)(tdr)
                    by_len = {}
                    for h in leaves:
                        by_len.setdefault(len(h), []).append(h)
                    for a in range(A):
                        for L, hs in by_len.items():
                            sub = tda[a : a + 1].expand(len(hs)).clone()
                            acts = torch.tensor([list(h) for h in hs])
                            r = env._get_reward(sub, acts).tolist()
                            p.add(evaluations=len(hs), transitions=len(hs))
                            for h, x in zip(hs, r):
                                if abs(x - base[h]) > 1e-5 * (1 + abs(base[h])):
                                    p.violation(sig(skey, f"state:{fam}", "cost_changed", f"A={A}"), dict(kind="aug_cost", spec=skey, instance_id=iid, instance=inst, family=fam, A=A, script=script, copy=a, actions=list(h)), f"{skey} {iid}: sequence {list(h)} costs {base[h]} on the original but {x} on {fam} copy {a} (rng answer {script})")
                                    break
            p.add(states=tree.states)
    p.sample(dict(part="augmentation", families=["dihedral8", "symmetric"], num_augment=[2, 4, 8], batch_sizes=[1, 2, 3]), cap=1)
    return p


# ------------------------------------------------------------------------------------------- (b)


METHODS = [
    ("greedy", {}),
    ("sampling", dict(samples=3)),
    ("multistart_greedy", {}),
    ("augment", dict(num_augment=2)),
    ("augment", dict(num_augment=8)),
    ("augment_dihedral_8", {}),
    ("multistart_greedy_augment", dict(num_augment=2)),
    ("multistart_greedy_augment_dihedral_8", {}),
]


def unit_eval(item):
    from rl4co.data.dataset import TensorDictDataset
    from rl4co.tasks.eval import evaluate_policy

    _, skey, tier, seed, method, mkw, bs = item[:7]
    order = item[7] if len(item) > 7 else None
    spec = ALL_SPECS[skey]
    p = Partial()
    # TSP: the 6-node generator instances (60 tours each: best-of-k really depends on which candidates are present)
    insts = spec.instances("deep" if skey == "tsp" else "quick", seed)
    groups = {}
    for iid, inst in insts:
        td = spec.td(inst)
        groups.setdefault(tuple((k, tuple(v.shape[1:])) for k, v in sorted(td.items())), []).append((iid, inst, td))
    g = max(groups.values(), key=len) if skey != "tsp" else max(groups.values(), key=lambda g_: (g_[0][2]["locs"].shape[1] == 6, len(g_)))
    want = 4 if bs == 3 else 3
    env = spec.env(g[0][1])
    pol = make("am", env, 0)
    if skey == "cvrp":
        # variable-length episodes: make sure the data set mixes the shortest and the longest greedy episodes of the alphabet
        with torch.no_grad(), Seam().active():
            E._set_bs(env, len(g))
            a = pol(env.reset(torch.cat([x[2] for x in g], 0)), env, decode_type="greedy")["actions"]
        lens = [int((row != 0).nonzero().max()) + 1 for row in a]
        by = sorted(range(len(g)), key=lambda i: (lens[i], i))
        idx = [by[0], by[-1]] + [i for i in E.pick_indices(len(g), want) if i not in (by[0], by[-1])]
        g = [g[i] for i in idx[:want]]
    else:
        g = [g[i] for i in E.pick_indices(len(g), want)]
    if order is not None:  # every order of the data set: which loader batch holds the longest episode must not matter
        g = [g[i] for i in order]
    data = torch.cat([x[2] for x in g], 0)
    ds = TensorDictDataset(data)
    oi = [spec.oracle_inst(x[1]) for x in g]
    cfg = f"{method}|{sorted(mkw.items())}|bs={bs}"
    rec = dict(kind="eval", spec=skey, method=method, kwargs=mkw, batch_size=bs, order=order, instances=[dict(instance_id=x[0], instance=x[1]) for x in g])
    env_name = skey.partition(":")[0]
    import rl4co.tasks.eval as ev_mod

    ev_mod.tqdm.write = staticmethod(lambda *a, **k: None)
    if "sampling" in method:
        scripts = [[], [1], [0, 1], [0, 0, 1]]
    elif "augment" in method and "dihedral" not in method:
        # the random rotation angles are one torch.rand call: answer it with a constant pattern (all angles 0 / all
        # angles ~4*pi) so that an instance gets the same angles inside the dataset and when re-evaluated alone
        scripts = [[1], [2]]
    else:
        scripts = [[]]
    for script in scripts:
        try:
            with Seam(script, tile_rows=False).active():
                out = evaluate_policy(env, pol, ds, method=method, batch_size=bs, auto_batch_size=False, progress=False, **mkw)
        except Exception as e:  # noqa: BLE001
            from ..seam import ReplayDivergence

            if isinstance(e, ReplayDivergence):
                continue
            p.violation(sig(env_name, cfg, f"crash:{type(e).__name__}", method), rec, f"evaluate_policy({method}, {mkw}, batch_size={bs}) on {skey} crashed: {type(e).__name__}: {str(e)[:120]}")
            return p
        p.add(states=1, evaluations=len(g), transitions=int(out["actions"].numel()))
        p.case(f"{skey}|{cfg}|{script}")
        if out["rewards"].shape[0] != len(g) or out["actions"].shape[0] != len(g):
            p.violation(sig(env_name, cfg, "shape", method), rec, f"evaluate_policy({method}) returned {out['rewards'].shape[0]} rewards / {out['actions'].shape[0]} action rows for {len(g)} instances")
            continue
        # single greedy reference and candidates, per instance, solo
        for i, (iid, inst, td0) in enumerate(g):
            acts = out["actions"][i].tolist()
            rew = float(out["rewards"][i])
            # strip padding: the solution is the prefix at which a solo run reports done
            td_s, masks, dones = E.run_solo(env, td0, acts)
            ok = all(masks[t][a] for t, a in enumerate(acts))
            L = next((t for t, d in enumerate(dones) if d), None)
            p.add(traces_validated_against_impl=1)
            if not ok or L is None:
                p.violation(sig(env_name, cfg, "actions", method), rec, f"evaluate_policy({method}) on {skey}: returned actions {acts} for instance {iid} are not a feasible episode of that instance")
                continue
            obj = O.objective(spec.kind, oi[i], acts[:L], spec.oracle_cfg(inst))
            if abs(obj - rew) > 1e-5 * (1 + abs(obj)):
                p.violation(sig(env_name, cfg, "reward_of_actions", method), rec, f"evaluate_policy({method}, bs={bs}) on {skey}: instance {iid} reported reward {rew}, but its returned actions {acts[:L]} have objective {obj} on the original instance")
                continue
            # candidates recomputed on the instance alone
            ds1 = TensorDictDataset(td0.clone())
            with Seam(script).active():
                solo = evaluate_policy(env, pol, ds1, method=method, batch_size=1, auto_batch_size=False, progress=False, **mkw)
            if "sampling" not in method and abs(float(solo["rewards"][0]) - rew) > 1e-5 * (1 + abs(rew)):
                p.violation(sig(env_name, cfg, "best_of_k", method), rec, f"evaluate_policy({method}, bs={bs}) on {skey}: instance {iid} gets {rew} inside the dataset but {float(solo['rewards'][0])} when evaluated alone (candidates of another instance leaked or were lost)")
            with Seam().active():
                gr = evaluate_policy(env, pol, ds1, method="greedy", batch_size=1, auto_batch_size=False, progress=False)
            greedy_r = float(gr["rewards"][0])
            # augmentation keeps the identity copy; full multi-start on TSP starts one rollout from every node, so the
            # greedy rollout (which starts from its own first node) is among the candidates in both cases
            if (method.startswith("augment") or (skey == "tsp" and method.startswith("multistart") and not mkw.get("num_starts"))) and rew < greedy_r - 1e-5 * (1 + abs(greedy_r)):
                p.violation(sig(env_name, cfg, "worse_than_greedy", method), rec, f"evaluate_policy({method}) on {skey}: instance {iid} gets {rew} < single greedy {greedy_r} although the identity copy with the greedy rollout is a candidate")
            p.outcome(f"{skey}|{method}|{rew >= greedy_r - 1e-6}")
    p.sample(dict(part="evaluate_policy", env=skey, method=method, kwargs=mkw, loader_batch_size=bs, instances=[x[0] for x in g]), cap=1)
    return p


def unit(item):
    return dict(aug=unit_aug, eval=unit_eval)[item[0]](item)


def main(tier):
    rep = Report(PID, tier, rule="one case = (a) one (augmentation family, num_augment, batch size, RNG answer) call, every produced copy judged, plus every complete action sequence of small TSP/CVRP instances costed on every copy; (b) one (environment, evaluation method + parameters, loader batch size, RNG answer) run of evaluate_policy with every instance re-judged solo; distinct = distinct configurations")
    rep.assumptions = [
        "min-max normalisation (normalize=True) is a rescaling option, not a symmetric augmentation, and is not judged",
        "auto_batch_size is not used (its heuristic divides by num_starts // 10, which is 0 for tiny instances); explicit loader batch sizes 1..3",
        "candidate sets are recomputed by evaluating each instance alone under the same RNG answers (relies on C14)",
        "attention-model policy with tiny random weights on TSP and CVRP",
    ]
    seed = seed_from_env()
    only = os.environ.get("VERIF_ONLY")
    items = [("aug", tier, seed)]
    # (environments whose reward lives in the episode state - mTSP min-max, MDCPDP - cannot be evaluated by tasks/eval.py
    # at all: it recomputes rewards from the INITIAL state and raises KeyError; best-of-k on them is judged in C12)
    for skey in ("tsp", "cvrp", "op:dist"):
        for method, mkw in METHODS:
            if skey == "op:dist" and method not in ("greedy", "sampling", "augment_dihedral_8"):
                continue  # OP: a prize-collecting objective whose value must come from (instance, actions), not from a state
            for bs in (1, 2, 3):
                items.append(("eval", skey, tier, seed, method, mkw, bs))
                # variable-length episodes: all orders of the data set (all assignments of instances to loader batches)
                if skey == "cvrp" and (tier == "thorough" or method in ("greedy", "multistart_greedy", "augment_dihedral_8")):
                    n = 4 if bs == 3 else 3
                    for order in list(itertools.permutations(range(n)))[1:]:
                        items.append(("eval", skey, tier, seed, method, mkw, bs, list(order)))
    if only:
        items = [i for i in items if only in str(i)]
    rep.merge_all(pmap(unit, items))
    return rep.finish()


def replay(rec):
    if rec["kind"] in ("aug", "aug_cost"):
        p = unit_aug(("aug", "quick", rec.get("seed", 0)))
        return bool(p.violations), "; ".join(v["msg"] for v in p.violations[:2]) or "augmentations are isometries"
    p = unit_eval(("eval", rec["spec"], "quick", 0, rec["method"], rec["kwargs"], rec["batch_size"], rec.get("order")))
    return bool(p.violations), "; ".join(v["msg"] for v in p.violations[:2]) or "evaluation reports true best-of-k"
