"""C04 — an instance's outcome is independent of its batch-mates and of padding steps.

E2 product exploration.  Reference = solo run (batch size 1) of EVERY complete action sequence of X
(all leaves of X's exhaustive tree).  Compared against, for the same action sequence of X:
  (i)   the batched frontier (X next to copies of itself at other histories),
  (ii)  pair batches [X, Y] and [Y, X] with unrelated stackable instances Y driven along their
        shortest and longest episode (so X is padded after finishing, or Y is), all pairs of one X
        interleaved in one big batch,
  (iii) genuine small batches of size 2 and 3 ([X,Y], [Y,X], [X,X], [X,Y,X]) for a subset of paths.
Observables: action_mask at every step up to finishing, the finishing step, the reward.
"""
from __future__ import annotations

import os

import torch

from .. import explore as E
from ..core import Partial, Report, pmap, seed_from_env
from ..registry import ALL_SPECS
from ..rtree import sig

PID = "C04"


def shape_sig(td):
    return E.group_sig(td)


def band_excused(spec, inst, prefix, smask, bmask):
    """A mask bit that differs between two runs is excused iff the independent oracle places the
    corresponding move inside the tolerance band of a float constraint (an exact float tie whose
    rounding may legitimately depend on the vectorisation of the batch)."""
    if not hasattr(spec, "oracle_inst"):
        return False
    from ..oracles import routing as O

    cfg = dict(spec.oracle_cfg(inst))
    cfg["partial"] = True
    oi = spec.oracle_inst(inst)
    for a, (x, y) in enumerate(zip(smask, bmask)):
        if x != y:
            v = O.check(spec.kind, oi, list(prefix) + [a], cfg)
            if not v.band:
                return False
    return True


def get_reward(env, td, acts_rows):
    acts = torch.tensor(acts_rows, dtype=torch.long)
    E._set_bs(env, len(acts_rows))
    return env._get_reward(td, acts).reshape(len(acts_rows), -1)[:, 0].tolist()


def solo_reference(env, td0, path):
    td, masks, dones = E.run_solo(env, td0, path)
    try:
        r = get_reward(env, td, [list(path)])[0]
    except Exception as e:  # C03 owns crashes of the reward function
        r = None
    return masks, dones, r


def run_rows(env, tds, paths, pad_pick="first"):
    """Step a batch whose row r follows paths[r] and is padded with an offered action afterwards.
    Returns per row: masks (list per step, while following the path), done step, all actions, final td."""
    B = len(paths)
    td = env.reset(torch.cat(tds, 0))
    T = max(len(p) for p in paths)
    masks = [[] for _ in range(B)]
    done_at = [None] * B
    acts_all = [[] for _ in range(B)]
    problems = []
    for t in range(T + 1):
        m = td["action_mask"].reshape(B, -1)
        d = E.done_vec(td).tolist()
        ml = m.tolist()
        for r in range(B):
            if t <= len(paths[r]):
                masks[r].append(ml[r])
            if d[r] and done_at[r] is None:
                done_at[r] = t
            if done_at[r] is not None and not d[r]:
                problems.append((r, t, "undone"))
        if t == T:
            break
        a = []
        for r in range(B):
            if t < len(paths[r]):
                a.append(paths[r][t])
            else:
                av = [i for i, x in enumerate(ml[r]) if x]
                a.append((av[0] if pad_pick == "first" else av[-1]) if av else 0)
            acts_all[r].append(a[-1])
        td = E.step_batch(env, td, a)
    return masks, done_at, acts_all, td, problems


def compare_rows(spec, p, env, rows_meta, masks, done_at, acts_all, td, ref, layout):
    """rows_meta[r] = (iid, inst, path, is_subject).  ref[(iid, path)] = (masks, dones, reward)."""
    B = len(rows_meta)
    try:
        rewards = get_reward(env, td, acts_all) if acts_all and acts_all[0] else [None] * B
    except Exception:
        rewards = [None] * B
    for r, (iid, inst, path, subject) in enumerate(rows_meta):
        if not subject:
            continue
        smasks, sdones, srew = ref[(iid, path)]
        p.add(evaluations=1)
        s_done_at = next((t for t, x in enumerate(sdones) if x), None)
        bad = None
        for t in range(len(path) + 1):
            if masks[r][t] != smasks[t]:
                if band_excused(spec, inst, path[:t], smasks[t], masks[r][t]):
                    p.add(float_ties_excused=1)
                    bad = ("tie", "")
                    break
                bad = ("mask", f"step {t}: solo mask {smasks[t]} vs batched {masks[r][t]}")
                break
        if bad is not None and bad[0] == "tie":
            continue
        if bad is None and done_at[r] != s_done_at:
            bad = ("done", f"solo finishes at step {s_done_at}, in the batch at step {done_at[r]}")
        if bad is None and srew is not None and rewards[r] is not None and abs(rewards[r] - srew) > 1e-6 * (1 + abs(srew)):
            bad = ("reward", f"solo reward {srew} vs batched {rewards[r]} (actions incl. padding {acts_all[r]})")
        if bad is not None:
            pad = len(acts_all[r]) - len(path)
            trig = "padding_steps>=1" if (pad > 0 and bad[0] == "reward") else layout.split("#")[0]
            others = [(m[0], list(m[2])) for i, m in enumerate(rows_meta) if i != r][:3]
            p.violation(
                sig(PID, spec, bad[0], trig),
                dict(kind="product", spec=spec.key, layout=layout, row=r, rows=[dict(instance_id=m[0], instance=m[1], path=list(m[2])) for m in rows_meta[: max(r + 1, 4)]] if B <= 4 else [dict(instance_id=iid, instance=inst, path=list(path))] + [dict(instance_id=m[0], instance=m[1], path=list(m[2])) for i, m in enumerate(rows_meta) if i != r][:1], subject_first=B > 4),
                f"{spec.key} {iid}: outcome of actions {list(path)} depends on the batch ({layout}, row {r} of {B}, batch-mates e.g. {others}): {bad[1]}",
            )


def unit(item):
    key, tier, seed = item
    spec = ALL_SPECS[key]
    p = Partial()
    insts = spec.instances(tier, seed)
    groups = {}
    for iid, inst in insts:
        td0 = spec.td(inst)
        groups.setdefault(shape_sig(td0), []).append((iid, inst, td0))
    max_x = 10 if tier == "quick" else 40
    for g in groups.values():
        env = spec.env(g[0][1])
        # trees + solo references
        trees, ref = {}, {}
        # spread the subjects over the group deterministically
        idxs = E.pick_indices(len(g), max_x)
        for gi in idxs:
            iid, inst, td0 = g[gi]
            tree = E.explore(env, td0)
            trees[iid] = tree
            p.add(states=tree.states, transitions=tree.transitions, trees=1)
            if tree.capped:
                p.add(caps_hit=1)
            leaves = tree.leaves
            if tier == "quick" and len(leaves) > 400:
                leaves = [leaves[i] for i in E.pick_indices(len(leaves), 400)]
                p.add(leaf_subsampled=1)
            for h in leaves:
                try:
                    ref[(iid, h)] = solo_reference(env, td0, h)
                except Exception as e:  # noqa: BLE001
                    # a sequence the batched frontier admitted step by step cannot even be executed alone
                    p.violation(
                        sig(PID, spec, f"crash:{type(e).__name__}", "solo_replay_of_frontier_path"),
                        dict(kind="frontier", spec=spec.key, instance_id=iid, instance=inst, path=list(h), step="solo_crash"),
                        f"{spec.key} {iid}: the sequence {list(h)}, admitted step by step inside a batch, crashes when the instance is run alone: {type(e).__name__}: {str(e)[:100]}",
                    )
                    continue
                p.add(traces_validated_against_impl=1, transitions=len(h))
            # (i) batched frontier vs solo
            by_hist = {n.hist: n for n in tree.nodes}
            rew_b = E.rewards_of_leaves(env, tree) if tree.leaves and not getattr(spec, 'reward_needs_all_done', False) and _reward_ok(env, tree) else None
            for li, h in enumerate(tree.leaves):
                if (iid, h) not in ref:
                    continue
                smasks, sdones, srew = ref[(iid, h)]
                p.add(evaluations=1, distinct_count=1)
                for t in range(len(h) + 1):
                    nd = by_hist[h[:t]]
                    if nd.mask != smasks[t] or nd.done != sdones[t]:
                        if nd.done == sdones[t] and band_excused(spec, inst, h[:t], smasks[t], nd.mask):
                            p.add(float_ties_excused=1)
                            break
                        p.violation(
                            sig(PID, spec, "mask" if nd.mask != smasks[t] else "done", "frontier_batch"),
                            dict(kind="frontier", spec=spec.key, instance_id=iid, instance=inst, path=list(h), step=t),
                            f"{spec.key} {iid}: after {list(h[:t])} solo mask/done {smasks[t]}/{sdones[t]} differ from the batched frontier's {nd.mask}/{nd.done}",
                        )
                        break
                else:
                    if rew_b is not None and srew is not None and abs(rew_b[li] - srew) > 1e-6 * (1 + abs(srew)):
                        p.violation(
                            sig(PID, spec, "reward", "frontier_batch"),
                            dict(kind="frontier", spec=spec.key, instance_id=iid, instance=inst, path=list(h), step="reward"),
                            f"{spec.key} {iid}: reward of {list(h)} is {srew} solo but {rew_b[li]} when computed next to other rows",
                        )
            p.outcome(f"{spec.key}|{iid}|{len(tree.leaves)}")
        # (ii)/(iii) product with batch-mates
        subj = [g[gi] for gi in idxs]
        for si, (iid, inst, td0) in enumerate(subj):
            tree = trees[iid]
            paths = [h for h in tree.leaves if (iid, h) in ref]
            if not paths:
                continue
            mates = [subj[(si + k) % len(subj)] for k in (1, 2)] if len(subj) > 1 else []
            mates = [m for j, m in enumerate(mates) if m[0] != iid and m[0] not in [x[0] for x in mates[:j]]]
            if not mates:
                mates = [(iid, inst, td0)]  # only copies of itself available
            for (yid, yinst, ytd0) in mates:
                ytree = trees[yid]
                if not ytree.leaves:
                    continue
                ys = sorted(ytree.leaves, key=lambda h: (len(h), h))
                scheds = [ys[0], ys[-1]] if ys[0] != ys[-1] else [ys[0]]
                for ypath in scheds:
                    for order in ("XY", "YX"):
                        tds, pths, meta = [], [], []
                        for h in paths:
                            pair = [(iid, inst, td0, h, True), (yid, yinst, ytd0, ypath, False)]
                            if order == "YX":
                                pair.reverse()
                            for (a, b, c, d_, s) in pair:
                                tds.append(c)
                                pths.append(d_)
                                meta.append((a, b, d_, s))
                        for pad_pick in ("first", "last"):
                            try:
                                masks, done_at, acts_all, td, problems = run_rows(env, tds, pths, pad_pick)
                            except Exception as e:
                                p.note(f"{spec.key}: stepping interleaved batch of {iid} with {yid} crashed: {type(e).__name__}: {str(e)[:100]} (padding crash is reported under C02)")
                                p.add(batch_crashes=1)
                                continue
                            p.add(transitions=sum(len(a) for a in acts_all))
                            compare_rows(spec, p, env, meta, masks, done_at, acts_all, td, ref, f"interleaved_{order}#{pad_pick}")
                            if all(len(a) == len(pp) for a, pp in zip(acts_all, pths)):
                                break  # no padding happened: the two padding choices are the same run
                # (iii) genuine small batches for a subset of X's paths
                sub = [paths[i] for i in E.pick_indices(len(paths), 6 if tier == "quick" else 24)]
                ypath = ys[-1]
                for h in sub:
                    layouts = {
                        "pair_XY": [(iid, inst, td0, h, True), (yid, yinst, ytd0, ypath, False)],
                        "pair_YX": [(yid, yinst, ytd0, ypath, False), (iid, inst, td0, h, True)],
                        "pair_XX": [(iid, inst, td0, h, True), (iid, inst, td0, h, True)],
                        "triple_XYX": [(iid, inst, td0, h, True), (yid, yinst, ytd0, ys[0], False), (iid, inst, td0, paths[0], True)],
                    }
                    for name, rows in layouts.items():
                        try:
                            masks, done_at, acts_all, td, problems = run_rows(env, [r[2] for r in rows], [r[3] for r in rows])
                        except Exception as e:
                            p.add(batch_crashes=1)
                            continue
                        p.add(transitions=sum(len(a) for a in acts_all))
                        compare_rows(spec, p, env, [(r[0], r[1], r[3], r[4]) for r in rows], masks, done_at, acts_all, td, ref, name)
        p.sample(dict(env=spec.key, group_instances=[x[0] for x in subj][:4], paths_of_first=len(trees[subj[0][0]].leaves)), cap=1)
    return p


def _reward_ok(env, tree):
    try:
        E.rewards_of_leaves(env, tree)
        return True
    except Exception:
        return False


def main(tier):
    rep = Report(PID, tier, rule="one case = one complete action sequence of a subject instance X, compared between its solo run and one batch layout (frontier / interleaved pair with Y / genuine 2- and 3-row batches); distinct = distinct (environment, X, sequence)")
    rep.assumptions = [
        "batch-mates are alphabet instances of the same tensor shapes (only those can be stacked)",
        "rows at different step counts cannot be produced through reset/step and are not explored",
        "per environment at most 10 (quick) / 40 (thorough) subject instances spread over the alphabet; all their complete sequences are used (quick: at most 400 per instance)",
    ]
    seed = seed_from_env()
    only = os.environ.get("VERIF_ONLY")
    items = [(k, tier, seed) for k in ALL_SPECS if not only or only in k]
    rep.merge_all(pmap(unit, items))
    rep.extra["environments"] = sorted(i[0] for i in items)
    return rep.finish()


def replay(rec):
    spec = ALL_SPECS[rec["spec"]]
    if rec["kind"] == "frontier":
        # the frontier batch of this one instance is rebuilt (its rows are all prefixes of the instance's own episodes)
        inst = rec["instance"]
        env = spec.env(inst)
        td0 = spec.td(inst)
        path = tuple(rec["path"])
        try:
            smasks, sdones, srew = solo_reference(env, td0, path)
        except Exception as e:  # noqa: BLE001
            return True, f"running {list(path)} alone raises {type(e).__name__}: {e}"
        tree = E.explore(env, td0)
        by_hist = {n.hist: n for n in tree.nodes}
        for t in range(len(path) + 1):
            nd = by_hist.get(path[:t])
            if nd is None:
                return True, f"the batched frontier does not reach {list(path[:t])}, the solo run does"
            if nd.mask != smasks[t] or nd.done != sdones[t]:
                return True, f"after {list(path[:t])}: solo mask/done {smasks[t]}/{sdones[t]} vs batched frontier {nd.mask}/{nd.done}"
        if rec.get("step") == "reward" and path in tree.leaves and srew is not None:
            rb = E.rewards_of_leaves(env, tree)[tree.leaves.index(path)]
            return abs(rb - srew) > 1e-6 * (1 + abs(srew)), f"reward solo {srew} vs next to other rows {rb}"
        return False, "solo run and batched frontier agree along the path"
    rows = rec["rows"]
    env = spec.env(rows[0]["instance"])
    r = 0 if rec.get("subject_first") else rec["row"]
    subj = rows[r]
    td0 = spec.td(subj["instance"])
    try:
        smasks, sdones, srew = solo_reference(env, td0, tuple(subj["path"]))
    except Exception as e:  # noqa: BLE001
        return True, f"running {subj['path']} alone raises {type(e).__name__}: {e}"
    if not all(t < len(smasks) and smasks[t][a] for t, a in enumerate(subj["path"])):
        return False, f"not reproduced: on this tree the mask does not admit {subj['path']} for the instance run alone (the record was produced by different code)"
    masks, done_at, acts_all, td, problems = run_rows(env, [spec.td(x["instance"]) for x in rows], [tuple(x["path"]) for x in rows])
    rew = get_reward(env, td, acts_all)[r]
    s_done_at = next((t for t, x in enumerate(sdones) if x), None)
    diff = masks[r][: len(subj["path"]) + 1] != smasks or done_at[r] != s_done_at or (srew is not None and abs(rew - srew) > 1e-6 * (1 + abs(srew)))
    return diff, f"solo: done@{s_done_at} reward {srew}; in batch of {len(rows)}: done@{done_at[r]} reward {rew}; masks equal={masks[r][:len(subj['path'])+1] == smasks}"
