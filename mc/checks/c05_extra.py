"""C05 for scheduling / selection environments (filled in by mc/sched.py and mc/select.py)."""


def run(tier):
    return []


def env_keys():
    return []


def replay(rec):
    return False, "unknown replay kind"
