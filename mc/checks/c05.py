"""C05 — the mask never hides a feasible solution: the optimum stays reachable.

For every constructive environment and every enumerable alphabet instance the set of complete
solutions reached by the exhaustive E1 exploration is compared (in canonical form, documented pruning
removed) with the brute-force set of feasible solutions of the independent problem definition:
    check 1: canon(MUST-feasible) is a subset of canon(reached);
    check 2: best reached objective >= best objective over MUST-feasible (and <= best over MAY-feasible).
Capacity and prize equality are exact on the lattice instances; other float constraints use the band.
"""
from __future__ import annotations

import itertools

from ..core import Partial, Report, pmap, seed_from_env
from ..oracles import routing as O
from ..routing import SPECS
from ..rtree import explore_instance, selected_specs, sig, solo_confirm, solo_validate, trace_replay_record

PID = "C05"


def svrp_candidates(oi):
    n = len(oi["locs"])
    T = len(oi["techs"])
    techs = [t[0] for t in oi["techs"]]
    skills = [s[0] for s in oi["skills"]]
    for perm in itertools.permutations(range(1, n + 1)):
        for s in O._splits(list(perm)):
            routes = O.split_routes(s)
            r = len(routes)
            if r > T:
                continue
            for assign in itertools.combinations(range(T), r):
                # documented pruning: a technician is skipped only when he cannot serve any remaining customer
                remaining = set(range(1, n + 1))
                ok = True
                acts = []
                k = 0
                for route, t in zip(routes, assign):
                    while k < t:
                        if any(skills[c - 1] <= techs[k] for c in remaining):
                            ok = False
                        acts.append(0)
                        k += 1
                    if not ok:
                        break
                    acts.extend(route)
                    remaining -= set(route)
                    if remaining:
                        acts.append(0)
                        k += 1
                if ok:
                    yield acts


def candidates(spec, oi, cfg):
    if spec.kind == "svrp":
        return svrp_candidates(oi)
    return O.enumerate_solutions(spec.kind, oi, cfg)


def trigger_of(spec, oi, cfg, sol):
    k = spec.kind
    if k in ("cvrp", "cvrptw", "sdvrp"):
        if any(abs(sum(oi["demand"][c - 1] for c in r) - 1.0) < 1e-9 for r in O.split_routes(sol)):
            return "load_equals_capacity"
    if k == "mtvrp":
        for r in O.split_routes(sol):
            if abs(sum(oi["demand_linehaul"][c] for c in r) - oi["vehicle_capacity"]) < 1e-9 or abs(sum(oi["demand_backhaul"][c] for c in r) - oi["vehicle_capacity"]) < 1e-9:
                return "load_equals_capacity"
    if k == "pctsp":
        pr = O._prize(oi, cfg)
        if abs(sum(pr[c - 1] for c in set(sol) if c != 0) - 1.0) < 1e-9:
            return "prize_equals_requirement"
    return "feasible_solution_hidden"


def unit(item):
    key, tier, seed = item
    spec = SPECS[key]
    p = Partial()
    for iid, inst in spec.instances(tier, seed):
        oi, cfg = spec.oracle_inst(inst), spec.oracle_cfg(inst)
        env, td0, tree = explore_instance(spec, inst, p)
        reached = {}
        for h in tree.leaves:
            reached.setdefault(O.canon(spec.kind, oi, h, cfg), h)
        for b in solo_validate(spec, env, td0, tree, p, k=3):
            p.note(f"{spec.key} {iid}: batched frontier and solo stepping disagree at {b} (reported under C04)")
        must, may = {}, {}
        n_cand = 0
        for sol in candidates(spec, oi, cfg):
            n_cand += 1
            v = O.check(spec.kind, oi, sol, cfg)
            c = O.canon(spec.kind, oi, sol, cfg)
            if v.must:
                must.setdefault(c, sol)
            if v.may:
                may.setdefault(c, sol)
        p.add(evaluations=n_cand, distinct_count=len(must), in_band=len(may) - len(must), reached_solutions=len(reached))
        p.outcome(f"{spec.key}|{len(must)}|{len(reached)}")
        missing = [c for c in must if c not in reached]
        for c in missing[:3]:
            sol = must[c]
            p.violation(
                sig(PID, spec, "reachable_set", trigger_of(spec, oi, cfg, sol)),
                dict(kind="hidden", spec=spec.key, instance_id=iid, instance=inst, solution=list(sol)),
                f"{spec.key} {iid}: feasible solution {list(sol)} (canonical {c}) cannot be reached through the mask ({len(missing)} of {len(must)} feasible solutions hidden)",
            )
        # reached solutions outside MAY are C01's business; here only the optimum
        if must:
            best_must = max(O.objective(spec.kind, oi, s, cfg) for s in must.values())
            best_may = max(O.objective(spec.kind, oi, s, cfg) for s in may.values())
            if reached:
                best_reached = max(O.objective(spec.kind, oi, h, cfg) for h in reached.values())
                tol = 1e-6 * (1 + abs(best_must))
                if best_reached < best_must - tol and not missing:
                    p.violation(
                        sig(PID, spec, "optimum", "optimum_unreachable"),
                        dict(kind="hidden", spec=spec.key, instance_id=iid, instance=inst, solution=list(max(must.values(), key=lambda s: O.objective(spec.kind, oi, s, cfg)))),
                        f"{spec.key} {iid}: best reachable objective {best_reached} is worse than the brute-force optimum {best_must}",
                    )
                p.sample(dict(env=spec.key, instance=iid, feasible_solutions=len(must), reached=len(reached), optimum=best_must, best_reached=best_reached), cap=1)
    return p


def main(tier):
    rep = Report(PID, tier, rule="one case = one brute-force candidate solution of one instance judged by the oracle; distinct_nontrivial = number of distinct canonical MUST-feasible solutions whose reachability through the mask was decided")
    rep.assumptions = [
        "canonical forms per DESIGN Appendix B (documented pruning removed on both sides)",
        "MDCPDP is compared for one depot only (num_depot>=2 is a recorded known finding)",
        "time-window / length constraints within 1e-4 of their limit are in-band and not demanded",
    ]
    seed = seed_from_env()
    specs = [s for s in selected_specs() if not (s.kind == "mdcpdp" and s.D >= 2)]
    alph = "thorough" if tier == "quick" else "deep"  # cheap check: one alphabet notch deeper than its tier name
    items = [(s.key, alph, seed) for s in specs]
    rep.extra["alphabet"] = alph
    parts = pmap(unit, items)
    from . import c05_extra

    parts += c05_extra.run(tier)
    rep.merge_all(parts)
    rep.extra["environments"] = sorted(i[0] for i in items) + c05_extra.env_keys()
    return rep.finish()


def replay(rec):
    if rec.get("kind") != "hidden":
        from . import c05_extra

        return c05_extra.replay(rec)
    spec = SPECS[rec["spec"]]
    inst = rec["instance"]
    oi, cfg = spec.oracle_inst(inst), spec.oracle_cfg(inst)
    p = Partial()
    env, td0, tree = explore_instance(spec, inst, p)
    reached = {O.canon(spec.kind, oi, h, cfg) for h in tree.leaves}
    c = O.canon(spec.kind, oi, rec["solution"], cfg)
    v = O.check(spec.kind, oi, rec["solution"], cfg)
    return (v.must and c not in reached), f"oracle: {v}; canonical form reached through the mask: {c in reached} ({len(reached)} reachable solutions)"
