"""Regenerates /verif/MANIFEST.json from the table below (python -m mc.manifest)."""
from __future__ import annotations

import json
import os

VERIF = os.path.dirname(os.path.dirname(os.path.abspath(__file__)))

TRUSTED = "trusted base: torch/tensordict primitives, the independent oracles in mc/oracles (plain Python restatements of the problem definitions), bounds and alphabets as recorded in the evidence file"

CHECKS = {
    "C01": dict(
        engine="E1 EnvExplorer",
        technique="explicit-state exhaustive BFS of the real env.reset/env.step over all mask-admitted action sequences (bounded instance alphabet), oracle on every leaf",
        text="All mask-admitted action sequences of every alphabet instance of every routing environment (13 families, 16 MTVRP variants, all modes) are executed on the real env.step and each complete episode is judged by an independent feasibility oracle; exhaustive within the stated size bounds, explorer paths re-executed solo.",
        ref="DESIGN.md section 4 C01",
    ),
}

CHECKS["C02"] = dict(
    engine="E1 EnvExplorer",
    technique="explicit-state exhaustive BFS of env.step (every reachable state incl. post-finish padding states) with invariant checking; real decoding loops run on mixed batches",
    text="Every reachable state (all mask-admitted prefixes, plus padding chains after finishing, as long as a concrete slower batch-mate exists) of every alphabet instance of every environment is visited; invariants: unfinished row has an action, finished row stays finished and steppable, depth within the step bound; BFS termination shows absence of cycles; rollout() loops on mixed batches finish below the bound.",
    ref="DESIGN.md section 4 C02",
)
CHECKS["C03"] = dict(
    engine="E1 EnvExplorer",
    technique="explicit-state exhaustive BFS of env.step; every leaf's reward compared with a float64 objective recomputed from instance + actions (0/1/2 padding steps)",
    text="For every complete mask-admitted sequence of every alphabet instance in every reward mode the library reward equals the independently recomputed objective, also after post-finish padding steps; violations are confirmed on a solo (batch size 1) replay before being reported.",
    ref="DESIGN.md section 4 C03",
)
CHECKS["C04"] = dict(
    engine="E2 ProductExplorer",
    technique="lock-step product exploration: every complete action sequence of X run solo vs in batched frontier / interleaved pairs / genuine 2- and 3-row batches with padding; masks, finishing step, reward compared",
    text="For every alphabet subject instance all complete mask-admitted sequences are executed solo and in several batch layouts next to unrelated instances driven along their shortest/longest episodes (inducing post-finish padding on either side); any difference in mask, finishing step or reward is a counterexample (float ties inside the oracle's tolerance band are excused and counted).",
    ref="DESIGN.md section 4 C04",
)
CHECKS["C05"] = dict(
    engine="E1 EnvExplorer",
    technique="explicit-state exhaustive BFS of env.step; reached solution set compared with brute-force enumeration of the problem definition (set inclusion + optimum)",
    text="The set of complete solutions reachable through the mask (exhaustive tree) is compared, in canonical form, with the brute-force set of feasible solutions of the independent definition for every enumerable alphabet instance incl. exact-equality boundary instances; hidden feasible solutions and unreachable optima are counterexamples.",
    ref="DESIGN.md section 4 C05",
)
CHECKS["C06"] = dict(
    engine="E1 EnvExplorer",
    technique="exhaustive enumeration of candidate solutions (all mask-generated leaves, all brute-force candidates, alternative encodings, all single-fault corruptions) against check_solution_validity, classified by the oracle",
    text="Every mask-generated solution, every brute-force candidate (feasible and infeasible), alternative encodings and all single-fault corruptions of feasible solutions are fed to the shipped checker; the oracle decides accept/reject expectations; in-band candidates are skipped.",
    ref="DESIGN.md section 4 C06",
)
CHECKS["C07"] = dict(
    engine="E1 EnvExplorer",
    technique="explicit-state exhaustive BFS of env.step over all mask-admitted sequences incl. wait actions; schedule validity oracle + independent event simulator replaying every trace and conformance of mask vs simulator in every state",
    text="All mask-admitted action sequences (wait actions included, mask_no_ops on/off, flatten on/off, padded instances) of every alphabet instance of FJSP/JSSP/FFSP/SMTWTP are executed; every leaf's reported schedule is validated against the original instance and against an independent simulator of the documented action semantics, and the simulator's offered actions must equal the mask in every explored state.",
    ref="DESIGN.md section 4 C07",
)
CHECKS["C08"] = dict(
    engine="E1 EnvExplorer",
    technique="explicit-state exhaustive BFS of env.step over all selection orders with invariants (distinct, allowed, done-at-quota, bookkeeping = definition) evaluated in every state",
    text="Every reachable selection prefix of every alphabet instance of FLP/MCP/DPP/MDPP is visited; invariants on distinctness, forbidden items, done exactly at quota and the bookkeeping tensors shown to the policy are checked in every state, rewards at the leaves.",
    ref="DESIGN.md section 4 C08",
)
CHECKS["C09"] = dict(
    engine="E1 EnvExplorer + E3 ChoiceExplorer",
    technique="explicit-state BFS of the real improvement env.step from every valid tour over every mask-admitted move (merged on (rec_current, rec_best)), plus stateless exhaustive enumeration of the multinomial answers inside env._random_action and the bundled policies' samplers; transition oracle on every step",
    text="From every valid tour of small instances every admitted move / every move the random-move sampler or a bundled policy (DACT, NeuOpt, N2S) can emit under any sampler answer is applied with the real step function, up to depth 3 (quick) / 4; each transition is judged for tour validity, precedence, exact current / best-so-far cost, monotone bsf, reward = decrease and visited_time consistency.",
    ref="DESIGN.md section 4 C09",
)
CHECKS["C11"] = dict(
    engine="E1 EnvExplorer + E3 ChoiceExplorer",
    technique="complete enumeration of all feasible action sequences (exhaustive env tree) through evaluate mode + stateless exhaustive enumeration of every sampler answer inside policy.forward (RNG seam); global normalisation oracle and per-step reference from raw decoder logits",
    text="For each bundled constructive policy x environment x small instance ALL complete feasible sequences are evaluated; their exp(log-likelihood) must sum to one, per-step values must equal an independent masked log-softmax of the decoder logits, and every trajectory the sampling / greedy / multistart decoders can emit under any multinomial answer must carry exactly the evaluate-mode log-likelihood, reward and entropy (PPO ratio 1).",
    ref="DESIGN.md section 4 C11",
)
CHECKS["C13"] = dict(
    engine="E1 EnvExplorer + reference search over the complete scored tree",
    technique="complete scored tree of the policy on each small instance (all feasible sequences with per-step log-probs) + plain reference beam search over it, compared with BeamSearch output for every width / select_best / batch layout",
    text="For every small instance, beam width 2..#starts, select_best on/off and batch sizes 1-3 the returned beams must equal a reference beam search over the COMPLETE scored tree of the policy, be feasible paths of the tree with exactly the tree's per-step log-probs, be distinct when their forced starts are, and best-selection must return the maximum-reward beam; ties at the selection boundary are skipped and counted.",
    ref="DESIGN.md section 4 C13",
)
CHECKS["C14"] = dict(
    engine="E2 ProductExplorer",
    technique="lock-step product over ALL ordered batch arrangements (size 1-3, duplicates, multi-start factorisations) of stackable alphabet instances; solo decode is the reference",
    text="Every instance is decoded greedily alone and in every ordered sub-batch of size 2 and 3 (plus duplicates, plus (batch, num_starts) factorisations) by every bundled constructive policy on every environment it supports; actions, reward and log-likelihood must agree, float ties at the first differing step are skipped and counted; inference-time randomness is owned by the RNG seam (row-keyed answers).",
    ref="DESIGN.md section 4 C14",
)
CHECKS["C12"] = dict(
    engine="E5 GridEnumerator + E3 ChoiceExplorer + E2 ProductExplorer",
    technique="complete grid over (B, factors, nestings, ranks) for batchify/unbatchify/gather; start-node rules of every environment under every RNG answer within one deviation; policy multistart / multisample outputs re-executed row by row solo on instance r mod B",
    text="Replication primitives are enumerated completely for B<=4, factors<=4 and all nestings with entries<=3; start nodes of every environment are judged for feasibility and distinctness on batches of alphabet instances where some nodes are infeasible first moves; every output row of multistart / multisample decoding (select_best on and off) is re-executed solo on its instance and best-selection is recomputed.",
    ref="DESIGN.md section 4 C12",
)
CHECKS["C17"] = dict(
    engine="E5 GridEnumerator + E3 ChoiceExplorer",
    technique="complete grid over dataset class x N x batch size x extra key x field dtypes, with ALL N! answers of the shuffling randperm forced through the RNG seam; RolloutBaseline wrapping with a marker policy",
    text="Every bundled dataset class (with/without extra key) is read back through DataLoader / RL4COLitModule loaders for every N<=5, every batch size 1..N+1 and every permutation the shuffler can draw; rollout-baseline values are recomputed per instance with a marker policy and must travel with their instance.",
    ref="DESIGN.md section 4 C17",
)
CHECKS["C18"] = dict(
    engine="E3 ChoiceExplorer + E1 EnvExplorer",
    technique="deviation-bounded exhaustive enumeration of the RNG answers inside every generator's _generate over a configuration grid; documented-contract oracle; solvability by exhaustive env exploration of every generated small instance",
    text="Each generator x configuration is executed under the default RNG answers and under every single (thorough: double) deviation over extreme/ramp/alternating answer patterns; outputs are judged against the documented keys/shapes/ranges and every generated instance of size<=5 is explored exhaustively for dead ends (larger ones with two extreme schedules and the env's checker).",
    ref="DESIGN.md section 4 C18",
)
CHECKS["C20"] = dict(
    engine="E4 OpSeqExplorer",
    technique="breadth-first enumeration of ALL operation sequences up to a depth over a small batch / callback alphabet on fresh real objects against a Fraction/float64 reference model, compared after every step",
    text="RewardScaler (all modes), ExponentialBaseline and WarmupBaseline are driven through every sequence of batches / eval / epoch_callback operations up to depth 3-6 from a small alphabet incl. constant and single-value batches; mean, sample std, output, EMA recurrence and warm-up weights are compared with an exact reference after every operation.",
    ref="DESIGN.md section 4 C20",
)
CHECKS["C10"] = dict(
    engine="E5 GridEnumerator + E3 ChoiceExplorer",
    technique="complete Cartesian enumeration of logit tuples x masks x temperature x top-k x top-p x tanh clipping on the real process_logits / greedy / sampling, float64 reference oracle; every positive-probability multinomial answer forced through the RNG seam",
    text="All logit n-tuples over a 9-letter alphabet (ties, huge magnitudes, single feasible action) for n<=3 (quick) / n<=5 (thorough), all masks with a feasible action and the full parameter grid are evaluated on the real functions and judged for normalisation, zero masked probability, kept maximiser, top-k count, top-p mass, shift invariance, row independence; greedy returns a maximiser and sampling can only return positive-probability feasible indices (every index forced in turn).",
    ref="DESIGN.md section 4 C10",
)
CHECKS["C15"] = dict(
    engine="E5 GridEnumerator + E3 ChoiceExplorer + E2 ProductExplorer",
    technique="augmentation families x num_augment x batch size under every RNG answer within one deviation (isometry / identity / row identity oracle), every complete action sequence of small instances costed on every copy; evaluate_policy for every method x parameters x loader batch size with each instance re-judged solo",
    text="Both augmentation families and StateAugmentation are enumerated over counts {2,4,8}, batch sizes 1-3 and all single-deviation answers of the angle draw; every complete TSP/CVRP action sequence is costed on every copy; evaluate_policy's reported reward must equal the oracle objective of the returned actions on the original instance, equal the instance's solo best-of-k under the same RNG answers and never be worse than single greedy when the identity copy is a candidate.",
    ref="DESIGN.md section 4 C15",
)
CHECKS["C16"] = dict(
    engine="E4 OpSeqExplorer + E5 GridEnumerator",
    technique="complete grid over algorithm x baseline x reward scale x batch size x (n_aug, n_start) factors, each driven through successive training steps on the real model classes with rollouts fixed by the RNG seam; loss value and autograd gradients compared with an independently rebuilt reference surrogate",
    text="REINFORCE with every baseline and advantage scaling, A2C, POMO, SymNCO (incl. n_aug != n_start) and PPO are stepped on small alphabet batches; the library loss and its gradient w.r.t. every policy / critic parameter must equal the reference surrogate rebuilt from reward, log-likelihood and an independent baseline value; rewards and baselines must carry no gradient; warm-up weights and EMA states are tracked across steps.",
    ref="DESIGN.md section 4 C16",
)
CHECKS["C19"] = dict(
    engine="E2 ProductExplorer",
    technique="lock-step bisimulation of an original and its round-tripped twin along ALL action sequences of small alphabet instances (npz, text files, deepcopy, pickle), content comparison + extreme schedules for generated dataset files, parameter / greedy-solution comparison for training checkpoints",
    text="Every environment's alphabet instances go through npz save/load and (FJSP/JSSP) text write/read, every environment through deepcopy and pickle (fresh and after a reset), generated dataset files through the environment's loader, and REINFORCE/POMO/A2C/PPO models through save_checkpoint/load_from_checkpoint; original and twin are stepped in lock-step over all action sequences and must agree on masks, done and reward; restored policies must give identical greedy solutions.",
    ref="DESIGN.md section 4 C19",
)

NOT_YET = {}


def build():
    checks = []
    for pid in sorted(CHECKS):
        if not os.path.exists(os.path.join(VERIF, "mc", "checks", f"{pid.lower()}.py")):
            continue
        c = CHECKS[pid]
        checks.append(
            dict(
                property_id=pid,
                quick_cmd=f"./check {pid} --tier quick",
                thorough_cmd=f"./check {pid} --tier thorough",
                evidence_file=f"/verif/evidence/{pid}.json",
                replay_cmd_template=f"./check {pid} --replay {{path}}",
                engine=c["engine"],
                level_claimed=dict(category=c.get("category", "model_checking"), text=c["text"], design_ref=c["ref"]),
                level_note=c.get("note", TRUSTED),
                technique=c["technique"],
            )
        )
    claimed = {c["property_id"] for c in checks}
    na = []
    for i in range(1, 21):
        pid = f"C{i:02d}"
        if pid not in claimed:
            na.append(dict(property_id=pid, reason=NOT_YET.get(pid, "check not built yet in this tree (bounded exhaustive exploration is applicable, see DESIGN.md section 4); not claimed until its machinery is committed")))
    man = dict(
        version=1,
        setup_cmd="/venv/bin/python -c \"import rl4co, torch, tensordict\" && chmod +x /verif/check",
        hooks=dict(
            guard="RL4CO_VERIF",
            enable="no source hooks are needed: the harness owns nondeterminism by scoped monkey-patching of torch RNG primitives from the checking process; RL4CO_VERIF=1 is exported by ./check but nothing in /repo reads it",
            baseline_off_cmd="cd /repo && /venv/bin/python -m pytest -ra -q -p no:cacheprovider --timeout=900 --continue-on-collection-errors",
            source_commits=[],
            add_only=True,
        ),
        engines=[
            dict(name="E1 EnvExplorer", path="mc/explore.py", serves_properties=["C01", "C02", "C03", "C05", "C06", "C07", "C08", "C18"], kind_free_text="explicit-state BFS of the real env.step, batched frontier, solo replays"),
            dict(name="E2 ProductExplorer", path="mc/product.py", serves_properties=["C04", "C12", "C14", "C15", "C19"], kind_free_text="lock-step product of two or more runs of the real code on the same event sequence"),
            dict(name="E3 ChoiceExplorer", path="mc/seam.py", serves_properties=["C09", "C10", "C11", "C13", "C15", "C17", "C18"], kind_free_text="stateless deviation-bounded enumeration of the answers of the torch RNG seam"),
            dict(name="E4 OpSeqExplorer", path="mc/opseq.py", serves_properties=["C16", "C20"], kind_free_text="BFS over operation sequences on fresh real objects against a reference model"),
            dict(name="E5 GridEnumerator", path="mc/grid.py", serves_properties=["C10", "C12", "C15", "C17"], kind_free_text="complete Cartesian enumeration of finite argument alphabets"),
        ],
        checks=checks,
        not_applicable=na,
        notes="See DESIGN.md. Known genuine defects that are recorded rather than repaired are listed in known_findings.json; repaired ones are 'fix:' commits in /repo listed under 'fixed' there.",
    )
    return man


def main():
    man = build()
    with open(os.path.join(VERIF, "MANIFEST.json"), "w") as f:
        json.dump(man, f, indent=1)
    print("claimed:", [c["property_id"] for c in man["checks"]], "not claimed:", [n["property_id"] for n in man["not_applicable"]])


if __name__ == "__main__":
    main()
