"""./check <ID> [--tier quick|thorough] [--replay file]"""
from __future__ import annotations

import argparse
import importlib
import json
import os
import sys

from .core import quiet


def main(argv=None):
    ap = argparse.ArgumentParser()
    ap.add_argument("pid")
    ap.add_argument("--tier", default=os.environ.get("VERIF_TIER", "quick"), choices=["quick", "thorough"])
    ap.add_argument("--replay", default=None)
    ap.add_argument("--only", default=None, help="restrict to environment keys containing this substring (debugging)")
    args = ap.parse_args(argv)
    quiet()
    pid = args.pid.upper()
    mod = importlib.import_module(f"mc.checks.{pid.lower()}")
    if args.replay:
        with open(args.replay) as f:
            rec = json.load(f)
        if rec.get("kind") == "unit_crash":
            # a whole work unit died inside the library: replayed by running the check restricted to that unit's key
            os.environ["VERIF_ONLY"] = rec.get("key", "")
            os.environ["VERIF_OUT"] = os.environ.get("VERIF_OUT") or "/tmp/verif_replay_out"
            importlib.reload(importlib.import_module("mc.core"))
            mod = importlib.reload(mod)
            rc = mod.main("quick")
            return 1 if rc else 0
        reproduced, text = mod.replay(rec)
        print(text)
        if reproduced:
            print(f"VIOLATION property={pid} replay={args.replay}")
            return 1
        print(f"replay of {args.replay}: property holds (violation not reproduced)")
        return 0
    if args.only:
        os.environ["VERIF_ONLY"] = args.only
    os.environ["VERIF_TIER_RUN"] = args.tier
    return mod.main(args.tier)


if __name__ == "__main__":
    sys.exit(main())
