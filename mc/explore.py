"""E1 EnvExplorer: level-synchronous, batched-frontier breadth-first exploration of the real
`env.reset` / `env.step`, one tree per instance.  A state is the action history that reaches it.

The whole frontier is stepped as one batch (fast); a stated number of root-to-leaf paths is then
re-executed *solo* (batch size 1, plain loop, no explorer code) and has to reproduce masks, done
and reward bit for bit (`solo_replay`).
"""
from __future__ import annotations

import os
import signal
import threading

import torch
from tensordict import TensorDict


def done_vec(td) -> torch.Tensor:
    return td["done"].reshape(td.batch_size[0], -1).any(-1)


def _set_bs(env, bs):
    # FFSP keeps its index tables outside the TensorDict
    tables = getattr(env, "tables", None)
    if tables is not None and hasattr(tables, "set_bs"):
        tables.set_bs(bs)


class StepTimeout(RuntimeError):
    """env.step did not return within the watchdog time (a loop inside the environment that never terminates)"""


_TIMEOUTS = {}  # per process and environment class: hanging steps seen so far (fail fast after a few)
_CURRENT = [None]


def _on_alarm(signum, frame):
    _TIMEOUTS[_CURRENT[0]] = _TIMEOUTS.get(_CURRENT[0], 0) + 1
    raise StepTimeout("env.step did not return within the watchdog time")


STEP_WATCHDOG_S = int(os.environ.get("VERIF_STEP_WATCHDOG", "60"))


def step_batch(env, td, actions, watchdog=None):
    td = td.clone()
    td.set("action", torch.as_tensor(actions, dtype=torch.long))
    _set_bs(env, td.batch_size[0])
    # watchdog: a single (batched) step normally takes milliseconds; time-advance loops inside scheduling
    # environments can spin forever after a defect, which has to surface as a finding instead of a hung check
    use_alarm = threading.current_thread() is threading.main_thread()
    _CURRENT[0] = type(env).__name__
    seen = _TIMEOUTS.get(_CURRENT[0], 0)
    if seen >= 6:
        # this environment class has hung six times in this process: further steps are not attempted
        raise StepTimeout(f"{_CURRENT[0]}.step hung {seen} times before in this process; not stepped again")
    if use_alarm:
        old = signal.signal(signal.SIGALRM, _on_alarm)
        signal.alarm((watchdog or STEP_WATCHDOG_S) if seen < 2 else 5)
    try:
        td = env.step(td)["next"]
    finally:
        if use_alarm:
            signal.alarm(0)
            signal.signal(signal.SIGALRM, old)
    if hasattr(env, "_update_step_state") and bool(done_vec(td).all()):
        # FFSP skips its mask update when EVERY row of the batch is finished (the decoding loop stops there).
        # A finished row that still has an unfinished batch-mate gets its mask from _update_step_state; the
        # harness applies the same function so that a finished row's state is the one it has in a running batch.
        td = env._update_step_state(td)
    return td


def reset_one(env, td0):
    td = env.reset(td0.clone())
    return td


class Node:
    __slots__ = ("hist", "mask", "done", "depth")

    def __init__(self, hist, mask, done):
        self.hist = hist
        self.mask = mask
        self.done = done


class Tree:
    def __init__(self):
        self.nodes = []  # every visited state (Node)
        self.leaves = []  # (hist tuple, index into leaf_td)
        self.leaf_td = None  # stacked TensorDict of all done states
        self.dead = []  # histories of non-done states without any feasible action
        self.states = 0
        self.transitions = 0
        self.max_depth = 0
        self.capped = False
        self.masks_seen = set()
        self.crashes = []  # (history incl. the crashing action, exception) of mask-admitted steps that raised


def explore(env, td0, max_depth=64, max_states=400_000, on_level=None, keep_nodes=True) -> Tree:
    """BFS over all mask-admitted action sequences of ONE instance (td0 has batch size 1).

    on_level(depth, states_td, hists) is called for every level *before* expansion (all states of
    that depth, done or not), so invariants can be evaluated on every reachable state.
    """
    tree = Tree()
    states = reset_one(env, td0)
    hists = [()]
    depth = 0
    leaf_chunks = []
    while hists:
        B = len(hists)
        tree.states += B
        tree.max_depth = max(tree.max_depth, depth)
        mask = states["action_mask"].reshape(B, -1)
        done = done_vec(states)
        if on_level is not None:
            on_level(depth, states, hists)
        rows, acts, new_hists = [], [], []
        leaf_rows = []
        mask_l = mask.tolist()
        done_l = done.tolist()
        for r in range(B):
            if keep_nodes:
                tree.nodes.append(Node(hists[r], mask_l[r], done_l[r]))
            tree.masks_seen.add(tuple(mask_l[r]))
            if done_l[r]:
                leaf_rows.append(r)
                tree.leaves.append(hists[r])
                continue
            av = [a for a, m in enumerate(mask_l[r]) if m]
            if not av:
                tree.dead.append(hists[r])
                continue
            for a in av:
                rows.append(r)
                acts.append(a)
                new_hists.append(hists[r] + (a,))
        if leaf_rows:
            leaf_chunks.append(states[torch.tensor(leaf_rows)].clone())
        if not rows:
            break
        if depth >= max_depth or tree.states + len(rows) > max_states:
            tree.capped = True
            break
        nxt = states[torch.tensor(rows)]
        try:
            states = step_batch(env, nxt, acts)
        except Exception:  # noqa: BLE001
            # a mask-admitted step raised: find the offending rows one by one, keep exploring the others
            good, parts = [], []
            timeouts = 0
            for q in range(len(acts)):
                if timeouts >= 3:
                    # several single rows already hang: the rest of this level is not stepped (reported as capped)
                    tree.capped = True
                    break
                try:
                    # single rows get a short watchdog: one row takes milliseconds unless the environment spins
                    parts.append(step_batch(env, nxt[q : q + 1], [acts[q]], watchdog=max(5, STEP_WATCHDOG_S // 18)))
                    good.append(q)
                except Exception as e:  # noqa: BLE001
                    timeouts += isinstance(e, StepTimeout)
                    if len(tree.crashes) < 20:
                        tree.crashes.append((new_hists[q], e))
            if not good:
                break
            if timeouts:
                # an environment that spins on some rows: this tree is not explored any deeper (reported as capped)
                tree.capped = True
                break
            states = torch.cat(parts, 0)
            acts = [acts[q] for q in good]
            new_hists = [new_hists[q] for q in good]
        tree.transitions += len(acts)
        hists = new_hists
        depth += 1
    if leaf_chunks:
        tree.leaf_td = torch.cat(leaf_chunks, 0)
    return tree


def run_solo(env, td0, actions, record_masks=True):
    """Explorer-free reference loop: one instance, batch size 1."""
    td = env.reset(td0.clone())
    masks = [td["action_mask"].reshape(-1).tolist()]
    dones = [bool(done_vec(td)[0])]
    for a in actions:
        td = step_batch(env, td, [a])
        masks.append(td["action_mask"].reshape(-1).tolist())
        dones.append(bool(done_vec(td)[0]))
    return td, masks, dones


def pick_indices(n, k):
    """k indices spread deterministically over range(n) (first, last and evenly between)."""
    if n <= k:
        return list(range(n))
    return sorted({round(i * (n - 1) / (k - 1)) for i in range(k)})


def rewards_of_leaves(env, tree: Tree, checked=False):
    """reward of every leaf via env.get_reward / _get_reward, leaves grouped by length (rectangular actions)."""
    out = [None] * len(tree.leaves)
    by_len = {}
    for i, h in enumerate(tree.leaves):
        by_len.setdefault(len(h), []).append(i)
    for L, idxs in by_len.items():
        td = tree.leaf_td[torch.tensor(idxs)].clone()
        acts = torch.tensor([list(tree.leaves[i]) for i in idxs], dtype=torch.long).reshape(len(idxs), L)
        _set_bs(env, len(idxs))
        r = env.get_reward(td, acts) if checked else env._get_reward(td, acts)
        r = r.reshape(len(idxs), -1)[:, 0].tolist()
        for i, x in zip(idxs, r):
            out[i] = x
    return out


QUOTA_KEYS = ("to_choose", "n_sets_to_choose")


def group_sig(td):
    """Instances that may be stacked into one batch: same tensor shapes / dtypes and, for the selection problems,
    the same quota (the generators give every row of a batch the same quota; mixed quotas are not a documented input)."""
    sig = tuple((k, tuple(v.shape[1:]), str(v.dtype)) for k, v in sorted(td.items()))
    quota = tuple((k, tuple(td[k].reshape(-1).tolist())) for k in QUOTA_KEYS if k in td.keys())
    return sig + quota
