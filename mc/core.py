"""Common plumbing: quiet imports, parallel map over work units, evidence / replay / known-finding handling.

Every check builds a `Report`, feeds it `Partial` results computed by worker processes and calls
`finish()`, which (1) matches violations against /verif/known_findings.json, (2) writes one replay
file per distinct violation signature, (3) rewrites /verif/evidence/<ID>.json and (4) returns the
exit code demanded by the interface (0 = held on everything explored, 1 = VIOLATION line printed).
"""
from __future__ import annotations

import hashlib
import json
import logging
import multiprocessing as mp
import os
import sys
import time
import traceback
import warnings

VERIF = os.path.dirname(os.path.dirname(os.path.abspath(__file__)))
# VERIF_OUT redirects evidence and replay files (used when the checks are pointed at a scratch copy of the repository
# with a seeded change, so that the committed evidence of the real tree is not overwritten)
_OUT = os.environ.get("VERIF_OUT", VERIF)
EVIDENCE_DIR = os.path.join(_OUT, "evidence")
REPLAY_DIR = os.path.join(_OUT, "replays")
KNOWN_FINDINGS = os.path.join(VERIF, "known_findings.json")

_QUIET_DONE = False


def quiet():
    """Silence library chatter and pin determinism knobs. Idempotent."""
    global _QUIET_DONE
    if _QUIET_DONE:
        return
    _QUIET_DONE = True
    warnings.filterwarnings("ignore")
    logging.disable(logging.CRITICAL)
    os.environ.setdefault("PYTHONHASHSEED", "0")
    os.environ.setdefault("RL4CO_VERIF", "1")
    import torch

    torch.set_num_threads(1)
    try:
        torch.set_num_interop_threads(1)
    except RuntimeError:
        pass
    torch.set_grad_enabled(True)


def seed_from_env() -> int:
    try:
        return int(os.environ.get("VERIF_SEED", "0"))
    except ValueError:
        return 0


def n_workers() -> int:
    try:
        return max(1, int(os.environ.get("VERIF_WORKERS", str(min(16, os.cpu_count() or 1)))))
    except ValueError:
        return 8


def jhash(obj) -> str:
    return hashlib.sha1(json.dumps(obj, sort_keys=True, default=str).encode()).hexdigest()[:12]


class Partial:
    """Picklable result of one work unit."""

    def __init__(self):
        self.stats = {}
        self.distinct = set()
        self.samples = []
        self.violations = []  # list of dict(signature=..., replay=..., msg=...)
        self.info = []  # informational lines (not violations)
        self.outcomes = set()  # distinct observed outcomes (vacuity guard)

    def add(self, **kw):
        for k, v in kw.items():
            self.stats[k] = self.stats.get(k, 0) + int(v)

    def maxi(self, **kw):
        for k, v in kw.items():
            self.stats[k] = max(self.stats.get(k, 0), int(v))

    def case(self, key):
        """Record one distinct non-trivial case (hashed)."""
        self.distinct.add(key if isinstance(key, str) else jhash(key))

    def outcome(self, key):
        self.outcomes.add(key if isinstance(key, str) else jhash(key))

    def sample(self, s, cap=3):
        if len(self.samples) < cap:
            self.samples.append(s)

    def violation(self, signature: dict, replay: dict, msg: str):
        # keep at most 3 witnesses per signature inside one unit
        sig_key = jhash(signature)
        same = sum(1 for v in self.violations if v["sig_key"] == sig_key)
        self.add(violations_raw=1)
        if same < 3:
            self.violations.append(dict(signature=signature, replay=replay, msg=msg, sig_key=sig_key))

    def note(self, line: str):
        if len(self.info) < 20 and line not in self.info:
            self.info.append(line)


MAX_KEYS = {"max_depth", "max_steps_seen", "max_batch"}


class UnitTimeout(RuntimeError):
    """a work unit used more CPU time than its budget (a loop that never ends)"""


def _on_unit_timer(signum, frame):
    raise UnitTimeout(f"work unit exceeded its CPU budget of {unit_cpu_budget()} s (a loop that does not terminate)")


def unit_cpu_budget() -> int:
    try:
        return int(os.environ.get("VERIF_UNIT_CPU_S", "300" if os.environ.get("VERIF_TIER_RUN", "quick") == "quick" else "3600"))
    except ValueError:
        return 300


def _run_unit(args):
    func, item = args
    quiet()
    import signal
    import threading

    timed = threading.current_thread() is threading.main_thread()
    if timed:
        # CPU-time budget per work unit (ITIMER_VIRTUAL: independent of the wall-clock alarm the step watchdog uses).
        # A decoding loop of the LIBRARY that spins forever (e.g. while not done: env.step) ends the unit with an error
        # raised inside the library frame, which is reported as a finding; a slow harness shows up as a harness error.
        old_handler = signal.signal(signal.SIGVTALRM, _on_unit_timer)
        signal.setitimer(signal.ITIMER_VIRTUAL, unit_cpu_budget(), 20)  # fires again every 20 CPU-s if a handler swallowed it
    try:
        return func(item)
    except Exception as e:  # must never be silently dropped
        p = Partial()
        frames = traceback.extract_tb(e.__traceback__)
        lib = [f for f in frames if (os.sep + "rl4co" + os.sep) in f.filename]
        if lib:
            # the LIBRARY raised on an input the harness fed it as valid and no check-specific handler claimed it:
            # that is a finding about the code under test (reported as a violation), not a harness fault
            last = lib[-1]
            where = f"{last.filename.split(os.sep + 'rl4co' + os.sep)[-1]}:{last.name}"
            p.unit_crashes = [dict(item=repr(item)[:300], type=type(e).__name__, message=str(e)[:200], where=where, traceback=traceback.format_exc()[-3000:], key=str(item[0] if isinstance(item, (tuple, list)) and item else item)[:60])]
            return p
        p.stats["harness_errors"] = 1
        p.info.append(f"HARNESS-ERROR in unit {item!r}: {type(e).__name__}: {e}\n{traceback.format_exc()}")
        return p
    finally:
        if timed:
            signal.setitimer(signal.ITIMER_VIRTUAL, 0)
            signal.signal(signal.SIGVTALRM, old_handler)


def pmap(func, items, workers=None):
    """Run func(item)->Partial over items on a fork pool; yields Partials in order."""
    items = list(items)
    workers = workers or n_workers()
    if workers <= 1 or len(items) <= 1:
        return [_run_unit((func, it)) for it in items]
    ctx = mp.get_context("fork")
    with ctx.Pool(min(workers, len(items))) as pool:
        return pool.map(_run_unit, [(func, it) for it in items], chunksize=1)


def load_known():
    if not os.path.exists(KNOWN_FINDINGS):
        return []
    with open(KNOWN_FINDINGS) as f:
        data = json.load(f)
    return [e for e in data.get("findings", [])]


def finding_matches(entry: dict, sig: dict) -> bool:
    """A known finding matches a violation only if property, env, observable and trigger all agree
    (an entry may list several alternative values for one field) and, when given, the configuration
    matches `config` exactly or `config_regex` fully.  Anything else is a new violation."""
    import re

    for k in ("property", "env", "observable", "trigger"):
        want = entry.get(k)
        got = sig.get(k)
        if isinstance(want, list):
            if got not in want:
                return False
        elif want != got:
            return False
    if "config" in entry and entry["config"] != sig.get("config"):
        return False
    if "config_regex" in entry and not re.fullmatch(entry["config_regex"], str(sig.get("config", ""))):
        return False
    return True


class Report:
    def __init__(self, pid: str, tier: str, level: str = "model_checking", rule: str = ""):
        self.pid = pid
        self.tier = tier
        self.seed = seed_from_env()
        self.level = level
        self.rule = rule
        self.t0 = time.time()
        self.stats = {}
        self.distinct = set()
        self.samples = []
        self.violations = []
        self.info = []
        self.outcomes = set()
        self.assumptions = []
        self.extra = {}
        self.exhaustive = True
        self.units = 0

    def merge(self, p: Partial):
        self.units += 1
        for k, v in p.stats.items():
            if k in MAX_KEYS:
                self.stats[k] = max(self.stats.get(k, 0), v)
            else:
                self.stats[k] = self.stats.get(k, 0) + v
        self.distinct |= p.distinct
        self.outcomes |= p.outcomes
        for s in p.samples:
            if len(self.samples) < 6:
                self.samples.append(s)
        self.violations.extend(p.violations)
        for c in getattr(p, "unit_crashes", []):
            sig = dict(property=self.pid, env="work_unit", config=c["key"], observable=f"crash:{c['type']}", trigger=f"library_raised:{c['where']}")
            self.violations.append(dict(signature=sig, replay=dict(kind="unit_crash", **c), msg=f"work unit {c['item']}: the library raised {c['type']}: {c['message']} in {c['where']} on an input the check feeds it as valid (no check-specific handler; the unit's other results are lost)", sig_key=jhash(sig)))
            self.exhaustive = False
        for l in p.info:
            if l not in self.info:
                self.info.append(l)

    def merge_all(self, partials):
        for p in partials:
            self.merge(p)

    def finish(self) -> int:
        os.makedirs(EVIDENCE_DIR, exist_ok=True)
        known = load_known()
        by_sig = {}
        for v in self.violations:
            by_sig.setdefault(v["sig_key"], []).append(v)
        new_viol = []
        known_hits = {}
        for sig_key, vs in sorted(by_sig.items()):
            sig = vs[0]["signature"]
            hit = next((e for e in known if finding_matches(e, sig)), None)
            if hit is not None:
                known_hits.setdefault(hit["id"], (hit, 0))
                known_hits[hit["id"]] = (hit, known_hits[hit["id"]][1] + len(vs))
            else:
                new_viol.append(vs[0])
        harness_errors = self.stats.get("harness_errors", 0)
        for l in self.info:
            print(("" if l.startswith("HARNESS-ERROR") else "INFO: ") + l)
        for hid, (hit, cnt) in sorted(known_hits.items()):
            print(f"KNOWN-FINDING: property={self.pid} {hit['id']}: {hit.get('what', '')} (witnesses this run: {cnt})")
        rc = 0
        if new_viol:
            os.makedirs(REPLAY_DIR, exist_ok=True)
            for v in new_viol[:25]:
                rp = dict(v["replay"])
                rp.setdefault("property", self.pid)
                rp["signature"] = v["signature"]
                rp["message"] = v["msg"]
                path = os.path.join(REPLAY_DIR, f"{self.pid}-{v['sig_key']}.json")
                with open(path, "w") as f:
                    json.dump(rp, f, indent=1, default=_json_default)
                print(f"VIOLATION property={self.pid} replay={path}")
                print(f"  signature={json.dumps(v['signature'], sort_keys=True)}")
                print(f"  {v['msg']}")
            rc = 1
        if harness_errors:
            print(f"HARNESS-ERROR: {harness_errors} work unit(s) failed inside the harness; result is not trusted")
            rc = max(rc, 2)
        cov = dict(self.extra)
        cov.update({k: v for k, v in self.stats.items()})
        states = int(self.stats.get("states", 0))
        transitions = int(self.stats.get("transitions", 0))
        evaluations = int(self.stats.get("evaluations", 0)) or (states + transitions)
        cov.update(
            dict(
                states=states,
                transitions=transitions,
                traces_validated_against_impl=int(self.stats.get("traces_validated_against_impl", 0)),
                evaluations=evaluations,
                distinct_nontrivial=len(self.distinct) + int(self.stats.get('distinct_count', 0)),
                distinct_outcomes=len(self.outcomes),
                rule=self.rule,
                samples=self.samples if self.samples else ["(no sample recorded)"],
                exhaustive=bool(self.exhaustive and not self.stats.get("caps_hit", 0)),
                work_units=self.units,
                known_findings_reported=sorted(known_hits.keys()),
            )
        )
        ev = dict(
            property_id=self.pid,
            tier=self.tier,
            seed=self.seed,
            level=self.level,
            coverage=cov,
            assumptions=self.assumptions,
            wall_s=round(time.time() - self.t0, 2),
            violations=len(new_viol),
        )
        with open(os.path.join(EVIDENCE_DIR, f"{self.pid}.json"), "w") as f:
            json.dump(ev, f, indent=1, default=_json_default)
        print(
            f"{self.pid} tier={self.tier} seed={self.seed} units={self.units} states={states} transitions={transitions} "
            f"evaluations={evaluations} distinct={cov['distinct_nontrivial']} outcomes={len(self.outcomes)} "
            f"validated={cov['traces_validated_against_impl']} new_violations={len(new_viol)} "
            f"known={len(known_hits)} wall={ev['wall_s']}s exhaustive={cov['exhaustive']}"
        )
        return rc


def _json_default(o):
    try:
        import torch

        if isinstance(o, torch.Tensor):
            return o.tolist()
    except Exception:
        pass
    if isinstance(o, (set, frozenset)):
        return sorted(o)
    return str(o)
