"""Tiny randomly initialised instances of the bundled constructive policies and the environments they support."""
from __future__ import annotations

import torch

from .core import quiet

quiet()


def _am(env, **kw):
    from rl4co.models import AttentionModelPolicy

    return AttentionModelPolicy(env_name=env.name, embed_dim=16, num_encoder_layers=1, num_heads=2, feedforward_hidden=32, **kw)


def _am_inst(env):
    return _am(env, normalization="instance")


def _am_layer(env):
    """documented non-default encoder normalisation"""
    return _am(env, normalization="layer")


def _symnco(env):
    from rl4co.models.zoo import SymNCOPolicy

    return SymNCOPolicy(env_name=env.name, embed_dim=16, num_encoder_layers=1, num_heads=2, feedforward_hidden=32)


def _ham(env):
    from rl4co.models.zoo.ham import HeterogeneousAttentionModelPolicy

    return HeterogeneousAttentionModelPolicy(env_name=env.name, embed_dim=16, num_encoder_layers=1, num_heads=2, feedforward_hidden=32)


def _ptrnet(env):
    from rl4co.models.zoo import PointerNetworkPolicy

    return PointerNetworkPolicy(env_name=env.name, embed_dim=16, hidden_dim=16)


def _ptrnet_outer_mask_only(env):
    """documented non-default flags: glimpses unmasked, pointer logits masked"""
    from rl4co.models.zoo import PointerNetworkPolicy

    return PointerNetworkPolicy(env_name=env.name, embed_dim=16, hidden_dim=16, mask_inner=False, mask_logits=True)


def _matnet(env):
    from rl4co.models.zoo import MatNetPolicy

    return MatNetPolicy(env_name=env.name, embed_dim=16, num_encoder_layers=1, num_heads=2)


def _polynet(env):
    from rl4co.models.zoo.polynet.policy import PolyNetPolicy

    return PolyNetPolicy(k=2, env_name=env.name, embed_dim=16, num_encoder_layers=1, num_heads=2, feedforward_hidden=32)


def _l2d(env):
    from rl4co.models.zoo.l2d import L2DPolicy

    return L2DPolicy(env_name=env.name, embed_dim=16, num_encoder_layers=1)


def _mdam(env):
    from rl4co.models.zoo import MDAMPolicy

    return MDAMPolicy(env_name=env.name, embed_dim=16, num_encoder_layers=1, num_heads=2)


class _HeatmapEncoder(torch.nn.Module):
    """A weight-free 'policy': heat-map logits are a fixed function of the coordinates (used with the library's
    NonAutoregressiveDecoder), so that decoding strategies can be exercised on environments the attention model
    does not support in that mode (e.g. beam search on mTSP, whose reward lives in the episode state)."""

    def __init__(self, seed=0):
        super().__init__()
        self.seed = seed
        self.dummy = torch.nn.Parameter(torch.zeros(1))

    def forward(self, td):
        locs = td["locs"]
        dist = torch.cdist(locs, locs)
        n = locs.shape[1]
        wobble = torch.sin((37.0 + self.seed) * torch.arange(n * n, dtype=torch.float32)).view(n, n)
        return -3.0 * dist + wobble, None


def _heatmap(env):
    from rl4co.models.common.constructive.base import ConstructivePolicy
    from rl4co.models.common.constructive.nonautoregressive.decoder import NonAutoregressiveDecoder

    return ConstructivePolicy(encoder=_HeatmapEncoder(), decoder=NonAutoregressiveDecoder(), env_name=env.name)


FACTORIES = dict(heatmap=_heatmap, am=_am, am_inst=_am_inst, am_layer=_am_layer, symnco=_symnco, ham=_ham, ptrnet=_ptrnet, ptrnet_mi0=_ptrnet_outer_mask_only, matnet=_matnet, polynet=_polynet, l2d=_l2d, mdam=_mdam)

# (policy key, spec key, flags).  follows_base: forward is ConstructivePolicy.forward (decoder protocol usable by the harness)
PAIRS = [
    ("am", "tsp", dict(base=True)),
    ("am", "cvrp", dict(base=True)),
    ("am", "cvrptw", dict(base=True)),
    ("am", "sdvrp", dict(base=True)),
    ("am", "svrp", dict(base=True)),
    ("am", "op:dist", dict(base=True)),
    ("am", "pctsp", dict(base=True)),
    ("am", "spctsp", dict(base=True)),
    ("am", "pdp", dict(base=True)),
    ("am", "mtsp:minmax", dict(base=True)),
    ("am", "mdcpdp:minsum:close:D1", dict(base=True)),
    ("am", "mtvrp:cvrp", dict(base=True)),
    ("am", "mtvrp:ovrpbltw", dict(base=True)),
    ("am", "smtwtp", dict(base=True)),
    ("am_inst", "tsp", dict(base=True)),
    ("symnco", "tsp", dict(base=True)),
    ("ham", "pdp", dict(base=True)),
    ("am_layer", "tsp", dict(base=True)),
    ("am_layer", "cvrp", dict(base=True)),
    ("am_inst", "tsp", dict(base=True)),
    ("ptrnet", "tsp", dict(base=False, eval_kw="eval_tours")),
    ("ptrnet_mi0", "tsp", dict(base=False, eval_kw="eval_tours")),
    ("matnet", "atsp", dict(base=True, rng_at_inference=True)),
    ("polynet", "tsp", dict(base=False, polynet=True)),
    ("polynet", "cvrp", dict(base=False, polynet=True)),
    ("l2d", "fjsp:mask", dict(base=True)),
    ("l2d", "jssp:mask", dict(base=True)),
]


def make(policy_key, env, seed=0, train=False):
    torch.manual_seed(4242 + 17 * seed)
    pol = FACTORIES[policy_key](env)
    return pol.train() if train else pol.eval()
