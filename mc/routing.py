"""Routing environments under exploration: environment construction, instance alphabets (DESIGN 2.2)
and conversion between oracle instances (plain dicts) and generator-format TensorDicts."""
from __future__ import annotations

import itertools
import math

import torch
from tensordict import TensorDict

from .core import quiet

quiet()

from rl4co.envs import (  # noqa: E402
    ATSPEnv,
    CVRPEnv,
    CVRPTWEnv,
    MDCPDPEnv,
    MTSPEnv,
    MTVRPEnv,
    OPEnv,
    PCTSPEnv,
    PDPEnv,
    SDVRPEnv,
    SPCTSPEnv,
    SVRPEnv,
    TSPEnv,
)

C = (0.5, 0.5)
DIAMOND = [(0.5 + 3 / 16, 0.5), (0.5, 0.5 + 4 / 16), (0.5 - 3 / 16, 0.5), (0.5, 0.5 - 4 / 16)]
RECT = [(0.0, 0.0), (3 / 8, 0.0), (3 / 8, 4 / 8), (0.0, 4 / 8)]
GENERIC = [(8 / 64, 8 / 64), (40 / 64, 16 / 64), (56 / 64, 48 / 64), (24 / 64, 56 / 64), (16 / 64, 32 / 64), (48 / 64, 8 / 64), (32 / 64, 40 / 64)]
Q4 = (0.25, 0.5, 0.75, 1.0)

INT64_KEYS = {"num_agents"}
BOOL_KEYS = {"open_route"}


def d(a, b):
    return math.hypot(a[0] - b[0], a[1] - b[1])


def inst_to_td(inst: dict) -> TensorDict:
    dts = inst.get("_dtypes", {})
    out = {}
    for k, v in inst.items():
        if k.startswith("_"):
            continue
        if k in dts:
            dt = getattr(torch, dts[k])
        elif k in INT64_KEYS:
            dt = torch.int64
        elif k in BOOL_KEYS:
            dt = torch.bool
        else:
            dt = torch.float32
        t = torch.tensor(v, dtype=dt).unsqueeze(0)
        shp = inst.get("_shapes", {}).get(k)
        if shp is not None:
            t = t.reshape(1, *shp)
        out[k] = t
    return TensorDict(out, batch_size=[1])


def td_to_inst(td: TensorDict, row=0, exact=False) -> dict:
    inst = {"_dtypes": {}, "_shapes": {}}
    for k, v in td.items():
        if not isinstance(k, str):
            continue
        inst[k] = v[row].tolist()
        inst["_dtypes"][k] = str(v.dtype).replace("torch.", "")
        inst["_shapes"][k] = list(v.shape[1:])
    inst["_exact"] = exact
    return inst


def oracle_view(kind, inst):
    """flatten singleton wrappers so the oracle sees scalars where the definition has scalars"""
    k = kind.split(":")[0]
    o = dict(inst)

    def scalar(x):
        while isinstance(x, (list, tuple)) and len(x) == 1:
            x = x[0]
        return x

    if k == "mtvrp":
        for key in ("vehicle_capacity", "distance_limit", "open_route", "speed", "capacity_original"):
            if key in o:
                o[key] = scalar(o[key])
    if k == "op":
        o["max_length"] = scalar(o["max_length"])
    if k == "mtsp":
        o["num_agents"] = scalar(o["num_agents"])
    if k == "mdcpdp":
        o["lateness_weight"] = scalar(o["lateness_weight"])
    return o


# --------------------------------------------------------------------------------------------


class RSpec:
    """one (environment, configuration) under exploration"""

    fixed_horizon = False  # all rows finish at the same step and the mask is empty afterwards
    has_checker = True

    def __init__(self, key, kind, cls, cfg=None, env_kwargs=None):
        self.key = key
        self.kind = kind
        self.cls = cls
        self.cfg = cfg or {}
        self.env_kwargs = env_kwargs or {}
        self._envs = {}
        self._inst_cache = {}

    # -- environment ---------------------------------------------------------------------
    def size_of(self, inst):
        return len(inst["locs"]) if "locs" in inst else len(inst["cost_matrix"])

    def gen_params(self, inst):
        return dict(num_loc=self.size_of(inst))

    def env(self, inst, check_solution=False):
        gp = self.gen_params(inst)
        ck = (tuple(sorted(gp.items())), check_solution)
        if ck not in self._envs:
            kw = dict(self.env_kwargs)
            kw["check_solution"] = check_solution
            self._envs[ck] = self.cls(generator_params=gp, **kw)
        return self._envs[ck]

    def td(self, inst):
        return inst_to_td(inst)

    def oracle_inst(self, inst):
        return oracle_view(self.kind, inst)

    def oracle_cfg(self, inst):
        return dict(self.cfg)

    # -- bounds --------------------------------------------------------------------------
    def step_bound(self, inst):
        n = self.size_of(inst)
        return 2 * n + 1

    # -- alphabets -----------------------------------------------------------------------
    def hand_instances(self, tier):
        return []

    def seeded_sizes(self, tier):
        return [4] if tier == "quick" else ([4, 5] if tier == "thorough" else [4, 5, 6])

    def seeded_instances(self, tier, seed):
        out = []
        for n in self.seeded_sizes(tier):
            for j in range(2 if tier == "quick" else 4):
                g = self.generator_for(n)
                torch.manual_seed(1000 * seed + 10 * n + j)
                try:
                    td = g(1)
                except Exception:
                    continue  # generator crashes are C18's business
                inst = td_to_inst(td)
                if self.well_formed(inst):
                    out.append((f"gen-n{n}-s{seed}-{j}", inst))
        return out

    def generator_for(self, n):
        fake = {"locs": [0] * n}
        return self.env(fake).generator

    def well_formed(self, inst):
        return True

    def instances(self, tier, seed):
        ck = (tier, seed)
        if ck not in self._inst_cache:
            out = list(self.hand_instances(tier)) + list(self.seeded_instances(tier, seed))
            ids = [i for i, _ in out]
            assert len(ids) == len(set(ids)), f"duplicate instance ids in {self.key}: {sorted(x for x in ids if ids.count(x) > 1)[:4]}"
            self._inst_cache[ck] = out
        return self._inst_cache[ck]


# ---------------------------------------------------------------------------------- TSP / ATSP


class TSPSpec(RSpec):
    fixed_horizon = True

    def step_bound(self, inst):
        return self.size_of(inst)

    def hand_instances(self, tier):
        out = [("diamond4", dict(locs=DIAMOND, _exact=True)), ("rect4", dict(locs=RECT, _exact=True)), ("generic5", dict(locs=GENERIC[:5]))]
        out.append(("collinear4", dict(locs=[(0.0, 0.5), (0.25, 0.5), (0.5, 0.5), (1.0, 0.5)], _exact=True)))
        if tier != "quick":
            out.append(("generic6", dict(locs=GENERIC[:6])))
            out.append(("diamond5", dict(locs=[C] + DIAMOND, _exact=True)))
        if tier == "deep":
            out.append(("generic7", dict(locs=GENERIC[:7])))
        return out


class ATSPSpec(RSpec):
    fixed_horizon = True

    def step_bound(self, inst):
        return self.size_of(inst)

    def hand_instances(self, tier):
        M4 = [[0, 1, 2, 3], [4, 0, 1, 2], [3, 5, 0, 1], [2, 3, 6, 0]]
        M4 = [[x / 8 for x in r] for r in M4]
        out = [("asym4", dict(cost_matrix=M4, _exact=True))]
        M3 = [[0, 0.5, 0.25], [0.125, 0, 0.75], [1.0, 0.25, 0]]
        out.append(("asym3", dict(cost_matrix=M3, _exact=True)))
        if tier != "quick":
            M5 = [[0 if i == j else ((3 * i + 5 * j) % 7 + 1) / 8 for j in range(5)] for i in range(5)]
            out.append(("asym5", dict(cost_matrix=M5, _exact=True)))
        return out


# ---------------------------------------------------------------------------------- CVRP family


def _cvrp_inst(pts, demand, depot=C, exact=True, **extra):
    inst = dict(depot=depot, locs=list(pts), demand=list(demand), capacity=[1.0], _exact=exact)
    inst.update(extra)
    return inst


class CVRPSpec(RSpec):
    def well_formed(self, inst):
        return max(inst["demand"]) <= 1.0

    def hand_instances(self, tier):
        out = []
        for dv in itertools.product(Q4, repeat=3):
            out.append((f"diamond3-{'-'.join(str(int(x * 4)) for x in dv)}", _cvrp_inst(DIAMOND[:3], dv)))
        sel4 = [(0.5, 0.5, 0.5, 0.5), (0.25, 0.75, 0.5, 0.5), (1, 1, 1, 1), (0.25, 0.25, 0.25, 0.25), (0.75, 0.25, 0.75, 0.25), (0.5, 0.25, 0.25, 1.0)]
        if tier != "quick":
            sel4 = list(itertools.product(Q4, repeat=4))
        for dv in sel4:
            out.append((f"diamond4-{'-'.join(str(int(x * 4)) for x in dv)}", _cvrp_inst(DIAMOND, dv)))
        out.append(("generic4", _cvrp_inst(GENERIC[1:5], (0.5, 0.25, 0.75, 0.5), depot=GENERIC[0])))
        if tier != "quick":
            out.append(("generic5", _cvrp_inst(GENERIC[1:6], (0.5, 0.25, 0.75, 0.5, 0.25), depot=GENERIC[0])))
            out.append(("generic5b", _cvrp_inst(GENERIC[1:6], (0.25, 0.25, 0.25, 0.25, 1.0), depot=GENERIC[0])))
        if tier == "deep":
            out.append(("generic6", _cvrp_inst(GENERIC[1:7], (0.5, 0.25, 0.75, 0.5, 0.25, 0.5), depot=GENERIC[0])))
            out.append(("generic6b", _cvrp_inst(GENERIC[1:7], (0.25, 0.25, 0.25, 0.25, 0.5, 0.5), depot=GENERIC[0])))
        return out


class SDVRPSpec(CVRPSpec):
    def step_bound(self, inst):
        n = self.size_of(inst)
        loads = math.ceil(sum(inst["demand"]) - 1e-9)
        return 2 * (n + loads) + 1

    def hand_instances(self, tier):
        out = []
        for dv in itertools.product(Q4, repeat=3):
            out.append((f"diamond3-{'-'.join(str(int(x * 4)) for x in dv)}", _cvrp_inst(DIAMOND[:3], dv)))
        if tier != "quick":
            for dv in [(0.5, 0.5, 0.5, 0.5), (0.75, 0.75, 0.75, 0.75), (0.25, 0.75, 0.5, 1.0), (0.25, 0.25, 0.25, 0.25)]:
                out.append((f"diamond4-{'-'.join(str(int(x * 4)) for x in dv)}", _cvrp_inst(DIAMOND, dv)))
        return out

    def seeded_sizes(self, tier):
        return [3] if tier == "quick" else [3, 4]


class HalfCapSpec(SDVRPSpec):
    """the documented generator option vehicle_capacity != 1 (here 0.5): mask, step and checker must all use it"""

    CAP = 0.5

    def gen_params(self, inst):
        return dict(num_loc=self.size_of(inst), vehicle_capacity=self.CAP)

    def oracle_cfg(self, inst):
        return dict(self.cfg, vehicle_capacity=self.CAP)

    def well_formed(self, inst):
        return max(inst["demand"]) <= self.CAP or self.kind == "sdvrp"

    def step_bound(self, inst):
        n = self.size_of(inst)
        loads = math.ceil(sum(inst["demand"]) / self.CAP - 1e-9)
        return 2 * (n + loads) + 1

    def hand_instances(self, tier):
        out = []
        E8 = (0.125, 0.25, 0.375, 0.5)
        combos = list(itertools.product(E8, repeat=3))
        if tier == "quick":
            combos = combos[::3]
        for dv in combos:
            inst = _cvrp_inst(DIAMOND[:3], dv)
            inst["capacity"] = [self.CAP]
            out.append((f"diamond3-{'-'.join(str(int(x * 8)) for x in dv)}", inst))
        return out

    def seeded_instances(self, tier, seed):
        return []


class CVRPTWSpec(CVRPSpec):
    T = 2.0

    def well_formed(self, inst):
        if max(inst["demand"]) > 1.0:
            return False
        nodes = [inst["depot"]] + list(inst["locs"])
        tw, du = inst["time_windows"], inst["durations"]
        for i in range(1, len(nodes)):
            d0 = d(nodes[0], nodes[i])
            if not (d0 <= tw[i][0] + 1e-6 and tw[i][0] < tw[i][1] and tw[i][1] + du[i] + d0 <= tw[0][1] + 1e-6):
                return False
        return True

    def _windows(self, pts, choice, dur):
        T = self.T
        tw = [[0.0, T]]
        du = [0.0]
        for p, ch, s in zip(pts, choice, dur):
            d0 = d(C, p)
            lo, hi = d0, T - d0 - s
            if ch == "wide":
                w = [lo, hi]
            elif ch == "early":
                w = [lo, lo + 0.125]
            elif ch == "late":
                w = [hi - 0.25, hi]
            else:  # "mid"
                w = [lo + 0.25, lo + 0.5]
            tw.append(w)
            du.append(s)
        return tw, du

    def hand_instances(self, tier):
        out = []
        pts = DIAMOND[:3]
        choices = ("wide", "early", "late", "mid")
        demand_sets = [(0.5, 0.5, 0.5), (0.25, 0.25, 0.25), (1.0, 0.5, 0.5)]
        if tier == "quick":
            combos = [c for c in itertools.product(choices, repeat=3) if c[0] <= c[1]]
            demand_sets = demand_sets[:2]
            durs = [(0.0, 0.0, 0.0), (0.125, 0.125, 0.125)]
        else:
            combos = list(itertools.product(choices, repeat=3))
            durs = [(0.0, 0.0, 0.0), (0.125, 0.125, 0.125), (0.25, 0.0, 0.125)]
        for ch in combos:
            for dv in demand_sets:
                for du_ in durs:
                    tw, du = self._windows(pts, ch, du_)
                    iid = f"diamond3-{''.join(c[0] for c in ch)}-{'-'.join(str(int(x * 4)) for x in dv)}-s{int(du_[0] * 8)}{int(du_[1] * 8)}{int(du_[2] * 8)}"
                    out.append((iid, _cvrp_inst(pts, dv, time_windows=tw, durations=du, exact=True)))
        # exact-arithmetic boundary instances: every number is a dyadic rational and all distances of the diamond are
        # exact (3-4-5 triangles), so an arrival can EQUAL a window end.  Customer 2's window closes exactly when the
        # vehicle arrives via customer 1 (0 -> 1 -> 2), customer 3's when it arrives via 2.
        pts = DIAMOND[:3]
        for s_ in (0.0, 0.125):
            d01, d02, d03 = d(C, pts[0]), d(C, pts[1]), d(C, pts[2])
            d12, d23 = d(pts[0], pts[1]), d(pts[1], pts[2])
            T = self.T
            tw = [[0.0, T], [d01, T - d01 - s_], [d02, d01 + s_ + d12], [d03, d02 + s_ + d23]]
            inst = _cvrp_inst(pts, (0.25, 0.25, 0.25), time_windows=tw, durations=[0.0, s_, s_, s_], exact=True)
            inst["_exact_time"] = True
            out.append((f"diamond3-tight-s{int(s_ * 8)}", inst))
        if tier != "quick":
            pts = DIAMOND
            for ch in [("wide",) * 4, ("early", "late", "mid", "wide"), ("mid",) * 4, ("late", "late", "early", "early")]:
                tw, du = self._windows(pts, ch, (0.0, 0.125, 0.0, 0.125))
                out.append((f"diamond4-{''.join(c[0] for c in ch)}", _cvrp_inst(pts, (0.5, 0.5, 0.5, 0.5), time_windows=tw, durations=du)))
        return out

    def seeded_sizes(self, tier):
        return [3] if tier == "quick" else [3, 4]


class SVRPSpec(RSpec):
    def oracle_cfg(self, inst):
        return dict(tech_costs=[1, 2, 3])

    def well_formed(self, inst):
        techs = [t[0] for t in inst["techs"]]
        skills = [s[0] for s in inst["skills"]]
        return techs == sorted(techs) and max(skills) <= max(techs)

    def hand_instances(self, tier):
        out = []
        tech_sets = [(1.0, 2.0, 3.0), (1.0, 1.0, 3.0), (3.0, 3.0, 3.0)]
        for techs in tech_sets:
            for sk in itertools.product((1.0, 2.0, 3.0), repeat=3):
                if max(sk) > max(techs):
                    continue
                iid = f"diamond3-t{''.join(str(int(t)) for t in techs)}-k{''.join(str(int(s)) for s in sk)}"
                out.append((iid, dict(depot=C, locs=DIAMOND[:3], techs=[[t] for t in techs], skills=[[s] for s in sk], _exact=True)))
        if tier != "quick":
            for sk in [(1.0, 2.0, 3.0, 1.0), (3.0, 3.0, 1.0, 1.0), (2.0, 2.0, 2.0, 2.0), (1.0, 1.0, 1.0, 3.0)]:
                out.append((f"diamond4-k{''.join(str(int(s)) for s in sk)}", dict(depot=C, locs=DIAMOND, techs=[[1.0], [2.0], [3.0]], skills=[[s] for s in sk], _exact=True)))
        return out


class OPSpec(RSpec):
    def __init__(self, key, prize_type):
        super().__init__(key, "op", OPEnv, cfg={}, env_kwargs=dict(prize_type=prize_type))
        self.prize_type = prize_type

    def gen_params(self, inst):
        return dict(num_loc=self.size_of(inst), prize_type=self.prize_type)

    def hand_instances(self, tier):
        if self.prize_type != "dist":
            return []  # prize type only matters for the generator; hand-built ones are shared via op:dist
        out = []
        prizes = [(1.0, 1.0, 1.0, 1.0), (0.25, 0.5, 0.75, 1.0)]
        # tour lengths on the diamond are multiples of 1/16: limits in the band (exactly a tour length), tight and loose
        # 0.4375: only customers 1 and 3 (round trip 0.375) are reachable, 2 and 4 (round trip 0.5) are not
        for L in (0.5, 0.75, 0.875, 1.0, 1.25, 1.5, 2.0, 0.3, 0.4375):
            for pr in prizes:
                out.append((f"diamond4-L{L}-p{int(pr[0] * 4)}", dict(depot=C, locs=DIAMOND, prize=list(pr), max_length=L, _exact=True)))
        out.append(("generic4", dict(depot=GENERIC[0], locs=GENERIC[1:5], prize=[0.1, 0.2, 0.3, 0.4], max_length=1.9)))
        if tier != "quick":
            out.append(("generic5", dict(depot=GENERIC[0], locs=GENERIC[1:6], prize=[0.1, 0.2, 0.3, 0.4, 0.5], max_length=2.1)))
        return out


class PCTSPSpec(RSpec):
    def __init__(self, key, cls, stochastic):
        super().__init__(key, "pctsp", cls, cfg=dict(stochastic=stochastic))

    def hand_instances(self, tier):
        out = []
        pen = [0.125, 0.25, 0.375]
        for pv in itertools.product(Q4, repeat=3):
            sp = [pv[2], pv[0], pv[1]]  # a different, still dyadic, stochastic prize
            out.append((f"diamond3-p{'-'.join(str(int(x * 4)) for x in pv)}", dict(depot=C, locs=DIAMOND[:3], penalty=pen, deterministic_prize=list(pv), stochastic_prize=sp, _exact=True)))
        for pv in [(0.25, 0.25, 0.25, 0.25), (0.5, 0.5, 0.25, 0.25), (0.125, 0.125, 0.125, 0.125), (1.0, 0.25, 0.25, 0.5)]:
            sp = [pv[3], pv[2], pv[1], pv[0]]
            out.append((f"diamond4-p{'-'.join(str(int(x * 8)) for x in pv)}", dict(depot=C, locs=DIAMOND, penalty=[0.125, 0.25, 0.375, 0.5], deterministic_prize=list(pv), stochastic_prize=sp, _exact=True)))
        return out


class PDPSpec(RSpec):
    fixed_horizon = True

    def __init__(self, key, force):
        super().__init__(key, "pdp", PDPEnv, cfg=dict(force_start_at_depot=force), env_kwargs=dict(force_start_at_depot=force))
        self.force = force

    def step_bound(self, inst):
        return self.size_of(inst) + (1 if self.force else 0)

    def hand_instances(self, tier):
        out = [("diamond4", dict(depot=C, locs=DIAMOND, _exact=True)), ("generic2", dict(depot=GENERIC[0], locs=GENERIC[1:3]))]
        if tier != "quick":
            out.append(("generic6", dict(depot=GENERIC[0], locs=GENERIC[1:7])))
        return out

    def seeded_sizes(self, tier):
        return [4] if tier == "quick" else [4, 6]


class MTSPSpec(RSpec):
    has_checker = False

    def __init__(self, key, cost_type):
        super().__init__(key, "mtsp", MTSPEnv, cfg=dict(cost_type=cost_type), env_kwargs=dict(cost_type=cost_type))

    def gen_params(self, inst):
        return dict(num_loc=self.size_of(inst), min_num_agents=1, max_num_agents=3)

    def generator_for(self, n):
        return self.env({"locs": [0] * n}).generator

    def hand_instances(self, tier):
        out = []
        for m in (1, 2, 3):
            out.append((f"rect4-m{m}", dict(locs=RECT, num_agents=m, _exact=True)))
            out.append((f"diamond5-m{m}", dict(locs=[C] + DIAMOND, num_agents=m, _exact=True)))
        out.append(("unit4-m2", dict(locs=[(0.0, 0.0), (1.0, 0.0), (1.0, 1.0), (0.0, 1.0)], num_agents=2, _exact=True)))
        # a customer that sits ON the depot: a sub-tour of length zero still uses up an agent
        out.append(("ondepot4-m2", dict(locs=[C, C, (0.75, 0.5), (0.5, 0.25)], num_agents=2, _exact=True)))
        if tier != "quick":
            out.append(("generic6-m3", dict(locs=GENERIC[:6], num_agents=3)))
        return out

    def seeded_sizes(self, tier):
        return [4] if tier == "quick" else [4, 5]


class MDCPDPSpec(RSpec):
    has_checker = False

    def __init__(self, key, reward_mode, problem_mode, D, depot_mode="multiple", dist_mode="L2"):
        super().__init__(key, "mdcpdp", MDCPDPEnv, cfg=dict(reward_mode=reward_mode, problem_mode=problem_mode, dist_mode=dist_mode), env_kwargs=dict(reward_mode=reward_mode, problem_mode=problem_mode, dist_mode=dist_mode))
        self.D = D
        self.depot_mode = depot_mode

    def gen_params(self, inst):
        return dict(num_loc=len(inst["locs"]), num_depot=len(inst["depot"]) if "depot" in inst else self.D, depot_mode=self.depot_mode, min_capacity=1, max_capacity=2)

    def generator_for(self, n):
        return self.env({"locs": [0] * n, "depot": [0] * self.D}).generator

    def step_bound(self, inst):
        return 2 * (len(inst["locs"]) + len(inst["depot"])) + 1

    def hand_instances(self, tier):
        out = []
        deps = [C, (0.25, 0.25), (0.75, 0.75)][: self.D]
        for cap in (1, 2):
            out.append((f"diamond4-D{self.D}-c{cap}", dict(depot=[list(x) for x in deps], locs=DIAMOND, capacity=[cap], lateness_weight=[0.25], _exact=True, _dtypes=dict(capacity="int64"))))
        out.append((f"generic2-D{self.D}", dict(depot=[list(x) for x in deps], locs=GENERIC[1:3], capacity=[1], lateness_weight=[0.5], _dtypes=dict(capacity="int64"))))
        return out

    def seeded_sizes(self, tier):
        return [4]


# ---------------------------------------------------------------------------------- MTVRP

MTVRP_VARIANTS = ["cvrp", "ovrp", "vrpb", "vrpl", "vrptw", "ovrptw", "ovrpb", "ovrpl", "vrpbl", "vrpbtw", "vrpltw", "ovrpbl", "ovrpbtw", "ovrpltw", "vrpbltw", "ovrpbltw"]


class MTVRPSpec(RSpec):
    def __init__(self, variant):
        super().__init__(f"mtvrp:{variant}", "mtvrp", MTVRPEnv)
        self.variant = variant
        self.O = variant.startswith("o")
        rest = variant[1:] if self.O else variant
        rest = rest.replace("vrp", "").replace("c", "")
        self.TW = "tw" in rest
        rest = rest.replace("tw", "")
        self.B = "b" in rest
        self.L = "l" in rest

    def size_of(self, inst):
        return len(inst["locs"]) - 1

    def gen_params(self, inst):
        return dict(num_loc=self.size_of(inst), variant_preset=self.variant)

    def generator_for(self, n):
        return self.env({"locs": [0] * (n + 1)}).generator

    def env(self, inst, check_solution=False):
        return super().env(inst, check_solution=check_solution)

    def _inst(self, pts, lh, bh, L, tw, st, exact=True, speed=1.0):
        n = len(pts)
        return dict(
            locs=[list(C)] + [list(p) for p in pts],
            demand_linehaul=[0.0] + list(lh),
            demand_backhaul=[0.0] + list(bh),
            distance_limit=[L],
            time_windows=tw,
            service_time=st,
            vehicle_capacity=[1.0],
            capacity_original=[30.0],
            open_route=[self.O],
            speed=[speed],
            _exact=exact,
        )

    def hand_instances(self, tier):
        out = []
        pts = DIAMOND[:3]
        INF = float("inf")
        if self.B:
            dem = [((0.5, 0.5, 0.0), (0.0, 0.0, 0.5)), ((0.5, 0.0, 0.0), (0.0, 0.75, 0.5)), ((0.0, 0.0, 0.0), (0.5, 0.5, 0.5)), ((1.0, 0.25, 0.0), (0.0, 0.0, 1.0))]
        else:
            dem = [((0.5, 0.5, 0.5), (0.0, 0.0, 0.0)), ((0.25, 0.75, 0.25), (0.0, 0.0, 0.0)), ((1.0, 0.5, 0.5), (0.0, 0.0, 0.0))]
        # distance limits: 2*max d0i < L required by the generator; diamond d0i in {3/16,4/16}: L > 0.5
        limits = [0.75, 1.0, 3.0] if self.L else [INF]
        if self.TW:
            T = 2.0
            tws = []
            # "over": the window closes so late that a service started near its end gets home after the depot closes
            # (still sane: a service started at the window's opening gets home in time); "hold" makes the vehicle wait
            # at a customer long enough that it then reaches an "over" customer inside that critical slot.
            for ch in (("wide",) * 3, ("early", "late", "mid"), ("over", "hold", "over"), ("mid", "mid", "early"), ("wide", "hold", "over")):
                tw, st = [[0.0, T]], [0.0]
                for p, c in zip(pts, ch):
                    d0 = d(C, p)
                    s = 0.125
                    lo, hi = d0 + 1 / 64, T - d0 - s - 1 / 64
                    w = dict(wide=[lo, hi], early=[lo, lo + 0.125], late=[hi - 0.25, hi], mid=[lo + 0.25, lo + 0.5], over=[lo, hi + s], hold=[hi - 0.3125, hi])[c]
                    tw.append(w)
                    st.append(s)
                tws.append((tw, st))
        else:
            tws = [([[0.0, INF]] * 4, [0.0] * 4)]
        if tier == "quick":
            dem, limits, tws = dem[:2], limits[:2], tws[:3]
        for (lh, bh), L, (twi, (tw, st)) in itertools.product(dem, limits, list(enumerate(tws))):
            iid = f"diamond3-lh{'-'.join(str(int(x * 4)) for x in lh)}-bh{'-'.join(str(int(x * 4)) for x in bh)}-L{L}-tw{twi}"
            out.append((iid, self._inst(pts, lh, bh, L, [list(w) for w in tw], list(st))))
        if self.TW:
            # vehicle speed is a documented generator argument / per-instance field: travel TIME is distance / speed
            (lh, bh), L = dem[0], limits[-1]
            for twi in (1, 2) if tier == "quick" else range(len(tws)):
                for sp in (2.0,) if tier == "quick" else (2.0, 0.5):
                    tw, st = tws[twi]
                    if sp < 1.0:  # slower vehicle: stretch all times so that the instance stays sane
                        tw, st = [[a / sp, b / sp] for a, b in tw], [x / sp for x in st]
                    out.append((f"diamond3-lh{'-'.join(str(int(x * 4)) for x in lh)}-L{L}-tw{twi}-speed{sp}", self._inst(pts, lh, bh, L, [list(w) for w in tw], list(st), speed=sp)))
            # a window that only a FAST vehicle can use: service may start so late that the way home takes d/speed < d
            sp, T_, s_ = 2.0, 2.0, 0.125
            tw, st = [[0.0, T_]], [0.0]
            for i, p_ in enumerate(pts):
                d0 = d(C, p_)
                if i == 1:
                    tw.append([T_ - d0 / sp - s_ - 1 / 16, T_ - d0 / sp - s_ - 1 / 64])
                else:
                    tw.append([d0 / sp + 1 / 64, T_ - d0 - s_ - 1 / 64])
                st.append(s_)
            out.append((f"diamond3-lh{'-'.join(str(int(x * 4)) for x in lh)}-L{L}-vlate-speed{sp}", self._inst(pts, lh, bh, L, tw, st, speed=sp)))
        return out

    def seeded_sizes(self, tier):
        return [3] if tier == "quick" else [3, 4]

    def seeded_instances(self, tier, seed):
        out = super().seeded_instances(tier, seed)
        if self.TW:
            # generator-made instances for faster / slower vehicles: their windows are built for THAT speed (a customer may
            # be served so late that only a vehicle of the configured speed is back at the depot in time)
            from rl4co.envs.routing.mtvrp.generator import MTVRPGenerator

            for sp, mt in ((2.0, 4.6), (4.0, 4.6), (0.5, 9.2)) if tier != "quick" else ((2.0, 4.6), (4.0, 4.6)):
                for j in range(2 if tier == "quick" else 3):
                    torch.manual_seed(5000 + 100 * seed + 10 * int(sp * 2) + j)
                    try:
                        td = MTVRPGenerator(num_loc=3, variant_preset=self.variant, speed=sp, max_time=mt)(1)
                    except Exception:
                        continue
                    inst = td_to_inst(td)
                    if self.well_formed(inst):
                        out.append((f"gen-n3-speed{sp}-s{seed}-{j}", inst))
        return out

    def well_formed(self, inst):
        o = oracle_view("mtvrp", inst)
        if max(o["demand_linehaul"]) > o["vehicle_capacity"] or max(o["demand_backhaul"]) > o["vehicle_capacity"]:
            return False
        return True


def all_specs():
    specs = [
        TSPSpec("tsp", "tsp", TSPEnv),
        ATSPSpec("atsp", "atsp", ATSPEnv),
        CVRPSpec("cvrp", "cvrp", CVRPEnv),
        CVRPTWSpec("cvrptw", "cvrptw", CVRPTWEnv),
        SDVRPSpec("sdvrp", "sdvrp", SDVRPEnv),
        HalfCapSpec("sdvrp:cap05", "sdvrp", SDVRPEnv),
        HalfCapSpec("cvrp:cap05", "cvrp", CVRPEnv),
        SVRPSpec("svrp", "svrp", SVRPEnv),
        OPSpec("op:dist", "dist"),
        OPSpec("op:unif", "unif"),
        OPSpec("op:const", "const"),
        PCTSPSpec("pctsp", PCTSPEnv, False),
        PCTSPSpec("spctsp", SPCTSPEnv, True),
        PDPSpec("pdp", False),
        PDPSpec("pdp:depot", True),
        MTSPSpec("mtsp:minmax", "minmax"),
        MTSPSpec("mtsp:sum", "sum"),
    ]
    for rm in ("minmax", "minsum", "lateness"):
        for pm in ("close", "open"):
            for D in (1, 2):
                specs.append(MDCPDPSpec(f"mdcpdp:{rm}:{pm}:D{D}", rm, pm, D))
            # the documented Manhattan-distance mode (single depot)
            specs.append(MDCPDPSpec(f"mdcpdp:{rm}:{pm}:D1:L1", rm, pm, 1, dist_mode="L1"))
    for v in MTVRP_VARIANTS:
        specs.append(MTVRPSpec(v))
    return specs


SPECS = {s.key: s for s in all_specs()}
