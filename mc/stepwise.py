"""Harness for the step-wise PPO trainer (StepwisePPO / L2DPPOModel) shared by C11 and C20.

The real module is driven without a Lightning Trainer: `shared_step(batch, i, "train")` is called for a few
consecutive batches with a real SGD optimiser behind `optimizers()`.  Two seams record what the property speaks about:
  * every `policy.evaluate(sub_td)` call inside `update()` is intercepted: the first evaluation of each mini-batch in
    each round compares the recomputed log-probabilities with the ones stored at acting time (`sub_td["logprobs"]`);
  * every `env.get_reward` result (raw step reward) and every TensorDict handed to the replay buffer (`rb.extend`)
    are recorded, so the stored reward can be compared with the stated transformation of the raw one.
Sampling inside `act` runs under the RNG seam (default answers), buffers live in memory.
"""
from __future__ import annotations

import copy

import torch

from .seam import Seam


def run_stepwise(env_cls_name="fjsp", reward_scale=None, rounds=3, batch=2, lr=0.05, seed=0, temperature=1.0):
    from rl4co.envs import FJSPEnv, JSSPEnv
    from rl4co.models.zoo.l2d.model import L2DPPOModel

    torch.manual_seed(100 + seed)
    env_cls = FJSPEnv if env_cls_name == "fjsp" else JSSPEnv
    gp = dict(num_jobs=2, num_machines=2, min_ops_per_job=1, max_ops_per_job=2, min_processing_time=1, max_processing_time=4) if env_cls_name == "fjsp" else dict(num_jobs=2, num_machines=2, min_processing_time=1, max_processing_time=4)
    env = env_cls(generator_params=gp, stepwise_reward=True, _torchrl_mode=True)
    model = L2DPPOModel(
        env,
        policy_kwargs=dict(embed_dim=16, num_encoder_layers=1, temperature=temperature),
        batch_size=batch,
        mini_batch_size=4,
        buffer_size=1000,
        buffer_storage_device="gpu",  # ListStorage (in memory); nothing is moved to a GPU
        ppo_epochs=2,
        reward_scale=reward_scale,
        train_data_size=batch,
        val_data_size=batch,
        test_data_size=batch,
    )
    model.policy.eval()  # batch-norm statistics must not differ between acting and evaluating
    model.policy_old.eval()
    opt = torch.optim.SGD(model.policy.parameters(), lr=lr)
    model.optimizers = lambda: opt
    model.manual_backward = lambda loss: loss.backward()
    model.clip_gradients = lambda *a, **k: None
    model.log_metrics = lambda out, phase, dataloader_idx=None: {}

    obs = dict(rounds=[], rewards=[])
    cur = dict(first=None, seen=set())

    orig_eval = model.policy.evaluate

    def evaluate(sub_td):
        lp, val, ent = orig_eval(sub_td)
        key = tuple(sub_td["logprobs"].flatten().tolist())
        if key not in cur["seen"] and not cur.get("stepped"):
            cur["seen"].add(key)
            d = float((lp.detach() - sub_td["logprobs"]).abs().max())
            cur["first"] = d if cur["first"] is None else max(cur["first"], d)
        return lp, val, ent

    model.policy.evaluate = evaluate
    step = opt.step

    def opt_step(*a, **k):
        cur["stepped"] = True  # after the first optimiser step of a round the ratio legitimately leaves one
        return step(*a, **k)

    opt.step = opt_step

    raw = []
    orig_reward = env.get_reward

    def get_reward(td, actions):
        r = orig_reward(td, actions)
        raw.append(r.clone())
        return r

    env.get_reward = get_reward
    orig_extend = model.rb.extend

    def extend(td):
        obs["rewards"].append((raw[-1].clone(), td["reward"].clone()))
        return orig_extend(td)

    model.rb.extend = extend

    for i in range(rounds):
        cur.update(first=None, seen=set(), stepped=False)
        with Seam().active():
            b = env.generator(batch)
        with Seam().active():
            model.shared_step(b, i, "train")
        obs["rounds"].append(cur["first"])
    obs["scaler"] = copy.deepcopy(model.scaler)
    return obs
