"""All (environment, configuration) specs under exploration: routing + scheduling + selection."""
from __future__ import annotations

import os

from .routing import SPECS as ROUTING_SPECS

ALL_SPECS = dict(ROUTING_SPECS)
try:
    from .sched import SPECS as SCHED_SPECS

    ALL_SPECS.update(SCHED_SPECS)
except ImportError:
    SCHED_SPECS = {}
try:
    from .selection import SPECS as SELECT_SPECS

    ALL_SPECS.update(SELECT_SPECS)
except ImportError:
    SELECT_SPECS = {}


def all_units(tier, seed, pred=None, chunk=24, specs=None):
    only = os.environ.get("VERIF_ONLY")
    items = []
    for k, s in (specs or ALL_SPECS).items():
        if only and only not in k:
            continue
        if pred is not None and not pred(s):
            continue
        n = len(s.instances(tier, seed))
        c = getattr(s, "chunk", chunk)
        for lo in range(0, n, c):
            items.append((k, tier, seed, lo, min(n, lo + c)))
    return items


def unit_instances_any(item):
    key, tier, seed, lo, hi = item
    spec = ALL_SPECS[key]
    return spec, spec.instances(tier, seed)[lo:hi]
