"""Shared driver for the tree-based routing checks (C01, C03, C05, C06): work-unit construction,
exploration of one instance, solo validation of explored paths."""
from __future__ import annotations

import os

import torch

from . import explore as E
from .core import Partial
from .routing import SPECS


def sig(pid, spec, observable, trigger):
    """structured violation signature (DESIGN 2.6): env = environment family, config = rest of the spec key"""
    env, _, config = spec.key.partition(":")
    return dict(property=pid, env=env, config=config, observable=observable, trigger=trigger)


def selected_specs(pred=None):
    only = os.environ.get("VERIF_ONLY")
    out = []
    for k, s in SPECS.items():
        if only and only not in k:
            continue
        if pred is not None and not pred(s):
            continue
        out.append(s)
    return out


def units(tier, seed, pred=None, chunk=24):
    """work items: (spec key, tier, seed, lo, hi) over the spec's instance list"""
    items = []
    for s in selected_specs(pred):
        n = len(s.instances(tier, seed))
        for lo in range(0, n, chunk):
            items.append((s.key, tier, seed, lo, min(n, lo + chunk)))
    return items


def unit_instances(item):
    key, tier, seed, lo, hi = item
    spec = SPECS[key]
    return spec, spec.instances(tier, seed)[lo:hi]


def explore_instance(spec, inst, p: Partial, max_states=400_000, on_level=None):
    env = spec.env(inst)
    td0 = spec.td(inst)
    tree = E.explore(env, td0, max_states=max_states, on_level=on_level)
    p.add(states=tree.states, transitions=tree.transitions, leaves=len(tree.leaves), trees=1)
    p.maxi(max_depth=tree.max_depth)
    if tree.capped:
        p.add(caps_hit=1)
    for h, e in tree.crashes[:2]:
        p.add(env_step_crashes=1)
        p.note(f"{spec.key}: mask-admitted step {list(h)} raises {type(e).__name__}: {str(e)[:80]} (reported as a violation by C02)")
    return env, td0, tree


def solo_validate(spec, env, td0, tree, p: Partial, k: int, rewards=None):
    """Re-execute k root-to-leaf paths solo (batch size 1, no explorer code); masks/done along the path must
    equal what the batched frontier saw, and the reward must equal the batched one.  Returns list of
    disagreement descriptions (each is a batch-independence (C04) counterexample)."""
    by_hist = {n.hist: n for n in tree.nodes}
    bad = []
    for i in E.pick_indices(len(tree.leaves), k):
        h = tree.leaves[i]
        td, masks, dones = E.run_solo(env, td0, h)
        p.add(traces_validated_against_impl=1)
        for t in range(len(h) + 1):
            nd = by_hist.get(h[:t])
            if nd is None:
                continue
            if nd.mask != masks[t] or nd.done != dones[t]:
                bad.append(dict(actions=list(h), step=t, batched_mask=nd.mask, solo_mask=masks[t], batched_done=nd.done, solo_done=dones[t]))
                break
        else:
            if rewards is not None and rewards[i] is not None:
                acts = torch.tensor([list(h)], dtype=torch.long).reshape(1, len(h))
                E._set_bs(env, 1)
                r = float(env._get_reward(td, acts).reshape(-1)[0])
                if abs(r - rewards[i]) > 1e-6 * (1 + abs(r)):
                    bad.append(dict(actions=list(h), step="reward", batched=rewards[i], solo=r))
    return bad


def trace_replay_record(spec, iid, inst, actions, **extra):
    rec = dict(kind="env_trace", spec=spec.key, instance_id=iid, instance=inst, actions=list(actions))
    rec.update(extra)
    return rec


def solo_confirm(spec, inst, actions, solution_len=None):
    """Re-execute one path solo.  Returns dict(admitted=all actions offered by the solo masks, done_at=first step
    with done, td=final TensorDict, error=exception or None).  Used to separate genuine single-instance
    violations from leaks between rows of the batched frontier (those belong to C04)."""
    env = spec.env(inst)
    try:
        td, masks, dones = E.run_solo(env, spec.td(inst), actions)
    except Exception as e:  # noqa: BLE001
        return dict(admitted=False, done_at=None, td=None, error=e, env=env)
    admitted = all(masks[t][a] for t, a in enumerate(actions))
    done_at = next((t for t, d in enumerate(dones) if d), None)
    return dict(admitted=admitted, done_at=done_at, td=td, error=None, env=env, masks=masks, dones=dones)


def solo_reward(env, td, actions):
    acts = torch.tensor([list(actions)], dtype=torch.long).reshape(1, len(actions))
    E._set_bs(env, 1)
    r1 = float(env._get_reward(td, acts).reshape(-1)[0])
    r2 = float(env._get_reward(td, acts).reshape(-1)[0])  # the answer must not change when asked again
    return r2 if abs(r1 - r2) > 1e-7 * (1 + abs(r1)) else r1
