"""Bounded-exhaustive model checking of rl4co (see /verif/DESIGN.md)."""
